#!/usr/bin/env python3
"""mkseedprompt.py <property-id> [suffix]: creates /tmp/wt/seed-<id><suffix> (scratch worktree without verif files) and /tmp/wt/prompt-<ID><suffix>.txt"""
import json, sys, subprocess
pid = sys.argv[1]; suf = sys.argv[2] if len(sys.argv) > 2 else ""
props = {json.loads(l)['id']: json.loads(l) for l in open('/verif/properties.jsonl')}
p = props[pid]
name = "seed-%s%s" % (pid.lower(), suf)
wt = subprocess.run(["/verif/tools/mkworktree.sh", name], capture_output=True, text=True, check=True).stdout.strip()
extra = sys.argv[3] if len(sys.argv) > 3 else ""
txt = f"""You are helping test a verification tool by producing a realistic, subtle bug ("seeded change") in the Go library pion/webrtc.

Working copy: a scratch git worktree at {wt} (work ONLY inside this directory; never touch /repo or /verif, and do not read anything under /verif).

Environment: the sandbox is offline. For every go command use: `cd {wt} && GOFLAGS=-mod=mod GOPROXY=off go ...` and do NOT set GOTOOLCHAIN or GOSUMDB. Tests: `GOFLAGS=-mod=mod GOPROXY=off go test -vet=off -count=1 <pkg>` (the root package takes ~3 minutes; run only the packages your change touches, but run ALL tests of those packages).

The property that must be BROKEN by your change (this is the only specification you get):

  Title: {p['title']}
  Statement: {p['statement']}
  Quantifier: {p['quantifier']['text']}
  Relevant files: {', '.join(p['anchors']['files'])}
{extra}
Task:
1. Read the relevant code and make a small source change (a few lines, in non-test .go files only) that makes the property FALSE for some inputs/sequences, while the code still compiles and ALL existing tests of the touched package(s) still pass.
2. The change should need something specific to manifest — an unusual input, a particular multi-step sequence of operations, a boundary value, or two cooperating sites that each look fine alone — not something ordinary use would expose at once. It should look like a plausible mistake or refactoring slip a developer could make, not sabotage. Do not add new files other than the demonstration test. Do not modify existing tests.
3. Write a demonstration: a new Go test file (name it zz_seed_demo_test.go in the touched package, package-internal tests are fine; test function names must start with TestSeedDemo) that FAILS with your change and PASSES on the unmodified code. Verify both directions yourself (use `git diff > /tmp/x.diff; git checkout <files>` to test the unmodified code, then re-apply).
4. When done, leave the worktree with your change applied and the demo test present, and write these files into {wt}/SEED/:
   - patch.diff : output of `git diff` for the non-test source change only (must apply with `git apply` / `patch -p1` to a clean checkout)
   - zz_seed_demo_test.go : copy of the demonstration test
   - meta.json : {{"property": "{pid}", "summary": "...what you changed...", "needs": "...what specific input/sequence/interleaving is needed for it to manifest...", "packages_tested": [...], "package_dir": "<directory of the touched package relative to the repo root, '.' for the root>", "demo_cmd": "...exact go test command..."}}
5. Reply with a short summary: what you changed, why existing tests don't catch it, and the demo command with its observed pass/fail results in both directions.

If your first idea is caught by an existing test, try another one. Keep the patch minimal."""
open(f"/tmp/wt/prompt-{pid}{suf}.txt", "w").write(txt)
print(wt)
