#!/usr/bin/env python3
"""mkrefactorprompt.py <property-id> [suffix]: creates /tmp/wt/ref-<id><suffix> (scratch worktree without verif files)
and /tmp/wt/refprompt-<ID><suffix>.txt asking for BEHAVIOUR-PRESERVING refactorings of the code a property is anchored in.
Used to test the checks for false alarms on code where the property still holds."""
import json, sys, subprocess
pid = sys.argv[1]; suf = sys.argv[2] if len(sys.argv) > 2 else ""
props = {json.loads(l)['id']: json.loads(l) for l in open('/verif/properties.jsonl')}
p = props[pid]
name = "ref-%s%s" % (pid.lower(), suf)
wt = subprocess.run(["/verif/tools/mkworktree.sh", name], capture_output=True, text=True, check=True).stdout.strip()
mech = "; ".join("%s (%s)" % (m.get('name', ''), m.get('where', '')) for m in p['anchors'].get('mechanism', []))
txt = f"""You are helping test a verification tool for false alarms by producing realistic, BEHAVIOUR-PRESERVING refactorings in the Go library pion/webrtc.

Working copy: a scratch git worktree at {wt} (work ONLY inside this directory; never touch /repo or /verif, and do not read anything under /verif).

Environment: the sandbox is offline. For every go command use: `cd {wt} && GOFLAGS=-mod=mod GOPROXY=off go ...` and do NOT set GOTOOLCHAIN or GOSUMDB. Tests: `GOFLAGS=-mod=mod GOPROXY=off go test -vet=off -count=1 <pkg>` (the root package takes ~3 minutes; run only the packages your change touches, but run ALL tests of those packages).

The property whose implementation you refactor (it must STILL HOLD after every one of your changes):

  Title: {p['title']}
  Statement: {p['statement']}
  Relevant files: {', '.join(p['anchors']['files'])}
  Mechanism: {mech}

Task:
Produce THREE independent small refactorings (each one a separate patch against the clean checkout, a few lines to a few dozen lines, non-test .go files only) of the functions that implement this property's mechanism. Each must be strictly behaviour-preserving for every input and every interleaving — the kind of clean-up a maintainer would merge without discussion. Use three DIFFERENT kinds, for example:
  - rename local variables / reorder independent statements / invert an if-else / replace an if-chain by a switch or vice versa
  - extract a few lines into a small unexported helper function, or inline a small helper at its only call site
  - replace an index loop by a range loop (or vice versa), hoist a loop-invariant expression into a local, introduce a named constant for a literal
  - add an early return / restructure nested ifs (guard clauses) without changing which branch runs
Do NOT change behaviour in any corner case (overflow, nil, empty input, error values and their types, order of side effects visible to callers, locking). Do not change exported API. Do not touch tests. Do not add files.
For each refactoring: apply it to the clean checkout, run all tests of the touched package(s) (they must pass), save `git diff` as {wt}/REF/patch1.diff (patch2.diff, patch3.diff), then `git checkout .` before the next one. Each patch must apply to a clean checkout with `patch -p1`.
Also write {wt}/REF/meta.json: {{"property": "{pid}", "patches": [{{"file": "patch1.diff", "kind": "...", "summary": "...", "functions": ["..."]}}, ...], "packages_tested": ["..."]}}.
Reply with a short summary of the three refactorings and the test results."""
open(f"/tmp/wt/refprompt-{pid}{suf}.txt", "w").write(txt)
print(wt)
