#!/bin/sh
# mkworktree.sh <name>: scratch git worktree of /repo HEAD under /tmp/wt/<name> without the verif-tagged files
set -e
d=/tmp/wt/$1
mkdir -p /tmp/wt
git -C /repo worktree add -q --detach "$d" HEAD
cd "$d"
find . -name 'zz_verif_*' -not -path './.git/*' -delete
git add -A >/dev/null
git -c user.name=builder -c user.email=b@x commit -qm "scratch base (verif files removed)" >/dev/null
echo "$d"
