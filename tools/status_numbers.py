#!/usr/bin/env python3
"""status_numbers.py: rewrites the units/obligations column of DESIGN.md section 13 from /verif/evidence/*.json
(numbers of the last run of each check) and prints the totals."""
import json, re, glob, os
ev = {}
for f in glob.glob("/verif/evidence/*.json"):
    d = json.load(open(f))
    ev[d["property_id"]] = d
s = open("/verif/DESIGN.md").read()
def repl(m):
    pid = m.group(1)
    d = ev.get(pid)
    if not d:
        return m.group(0)
    c = d["coverage"]
    return "| %s |%s| %d/%d |" % (pid, m.group(2), c.get("units", 0), c.get("obligations", 0))
start = s.index("## 13. Per-property status")
end = s.index("## 14.", start)
sec = re.sub(r"\| (C\d\d) \|([^|]*)\| \d+/\d+ \|", repl, s[start:end])
open("/verif/DESIGN.md", "w").write(s[:start] + sec + s[end:])
tu = sum(d["coverage"].get("units", 0) for d in ev.values())
to = sum(d["coverage"].get("obligations", 0) for d in ev.values())
td = sum(d["coverage"].get("discharged", 0) for d in ev.values())
print("checks=%d units=%d obligations=%d discharged=%d" % (len(ev), tu, to, td))
