#!/usr/bin/env python3
"""seedrun.py [<seed-id> ...]: re-runs the property's quick check against each stored seeded change
(/verif/seeded/<id>/patch.diff applied to a scratch copy of /repo) and updates meta.json."""
import sys, os, subprocess, shutil, json, tempfile, concurrent.futures
ids = sys.argv[1:] or sorted(os.listdir("/verif/seeded"))
def run(sid):
    d = os.path.join("/verif/seeded", sid)
    meta = json.load(open(os.path.join(d, "meta.json")))
    prop = meta["property"]
    tmp = tempfile.mkdtemp(prefix="seedrun-")
    try:
        repo = os.path.join(tmp, "repo")
        subprocess.check_call(["rsync", "-a", "--exclude", ".git", "/repo/", repo + "/"])
        r = subprocess.run(["patch", "-p1", "-s", "-d", repo, "-i", os.path.join(d, "patch.diff")], capture_output=True, text=True)
        if r.returncode != 0:
            return sid, prop, "patch does not apply", []
        env = dict(os.environ, GOFLAGS="-mod=mod", GOPROXY="off", VERIF_ROOT=tmp)
        for f in ("props.json", "known_findings.json"):
            shutil.copy(os.path.join("/verif", f), os.path.join(tmp, f))
        shutil.copytree("/verif/replay", os.path.join(tmp, "replay"))
        c = subprocess.run(["/verif/bin/govc", "check", prop, "--repo", repo, "--evidence", os.path.join(tmp, "ev")], capture_output=True, text=True, env=env)
        obls = [l.replace(tmp, "<scratch>") for l in c.stdout.splitlines() if l.startswith("FAILED-OBLIGATION") or l.startswith("FAILED-BOUNDED-CHECK") or l.startswith("VIOLATION")]
        meta["check_detects"] = c.returncode != 0
        meta["check_output"] = obls[:6]
        json.dump(meta, open(os.path.join(d, "meta.json"), "w"), indent=1)
        return sid, prop, "DETECTED" if c.returncode != 0 else "missed", obls
    finally:
        shutil.rmtree(tmp, ignore_errors=True)
with concurrent.futures.ThreadPoolExecutor(max_workers=4) as ex:
    for sid, prop, verdict, obls in ex.map(run, ids):
        print("%-10s %-4s %s" % (sid, prop, verdict))
        for l in obls[:2]:
            print("     ", l[:200])
