#!/usr/bin/env python3
"""mkmutant.py <name> <property> <expect:fail|pass> <file> <old> <new> [<file> <old> <new> ...]
Creates /verif/selftest/<name>.patch (+ .json) by replacing <old> with <new> (first occurrence) in a scratch copy of /repo."""
import sys, os, subprocess, tempfile, shutil, json
name, prop, expect = sys.argv[1:4]
triples = sys.argv[4:]
tmp = tempfile.mkdtemp(prefix="mkmut-")
try:
    a, b = os.path.join(tmp, "a"), os.path.join(tmp, "b")
    subprocess.check_call(["rsync", "-a", "--exclude", ".git", "/repo/", a + "/"])
    subprocess.check_call(["rsync", "-a", a + "/", b + "/"])
    for i in range(0, len(triples), 3):
        f, old, new = triples[i:i+3]
        p = os.path.join(b, f)
        s = open(p).read()
        if old not in s:
            raise SystemExit("pattern not found in %s: %r" % (f, old))
        open(p, "w").write(s.replace(old, new, 1))
    r = subprocess.run(["diff", "-ruN", "a", "b"], cwd=tmp, capture_output=True, text=True)
    open("/verif/selftest/%s.patch" % name, "w").write(r.stdout)
    json.dump({"name": name, "property": prop, "expect": expect}, open("/verif/selftest/%s.json" % name, "w"))
    print("wrote /verif/selftest/%s.patch (%d lines)" % (name, r.stdout.count("\n")))
finally:
    shutil.rmtree(tmp)
