#!/usr/bin/env python3
"""Regenerates /verif/MANIFEST.json from props.json (claimed checks) and
not_applicable.json (everything else). Keeps the manifest valid at all times."""
import json, os, subprocess
V = os.path.dirname(os.path.dirname(os.path.abspath(__file__)))
props = json.load(open(os.path.join(V, "props.json")))
na = json.load(open(os.path.join(V, "not_applicable.json")))
ids = [json.loads(l)["id"] for l in open(os.path.join(V, "properties.jsonl"))]
claimed = {p["id"] for p in props}
checks = []
for p in props:
    checks.append({
        "property_id": p["id"],
        "quick_cmd": "/verif/check %s --tier quick" % p["id"],
        "thorough_cmd": "/verif/check %s --tier thorough" % p["id"],
        "evidence_file": "/verif/evidence/%s.json" % p["id"],
        "replay_cmd_template": "/verif/bin/govc replay {path}",
        "engine": "govc",
        "level_claimed": {"category": p.get("level", "proof"), "text": p.get("text", ""), "design_ref": p.get("design_ref", "DESIGN.md section 7 (%s)" % p["id"])},
        "level_note": p.get("note", ""),
        "technique": p.get("technique", "contract-based deductive verification: WP verification conditions generated from go/ssa of the real code, discharged by z3/cvc5"),
    })
nas = []
for i in ids:
    if i in claimed:
        continue
    if i not in na:
        raise SystemExit("property %s is neither claimed nor listed in not_applicable.json" % i)
    nas.append({"property_id": i, "reason": na[i]})
hooks_commits = []
try:
    out = subprocess.run(["git", "-C", "/repo", "log", "--format=%H %s"], capture_output=True, text=True).stdout
    for line in out.splitlines():
        h, s = line.split(" ", 1)
        if s.startswith("verif:"):
            hooks_commits.append(h)
except Exception:
    pass
m = {
    "version": 1,
    "setup_cmd": "cd /verif/govc && GOFLAGS=-mod=mod GOPROXY=off go build -o /verif/bin/govc ./cmd/govc",
    "hooks": {
        "guard": "verif",
        "enable": "go build tag: -tags verif (contract comment files zz_verif_contracts*.go and spec functions zz_verif_spec*.go are compiled only with the tag; the verifier loads packages with -tags=verif)",
        "baseline_off_cmd": "cd /repo && GOFLAGS=-mod=mod GOPROXY=off go test -vet=off -count=1 -timeout 25m ./...",
        "source_commits": hooks_commits,
        "add_only": True,
    },
    "engines": [{
        "name": "govc", "path": "/verif/govc",
        "serves_properties": sorted(claimed),
        "kind_free_text": "self-built deductive verifier for Go: symbolic execution of go/ssa (naive form) of /repo's current sources, loops cut at invariants, calls replaced by contracts, write-set frames, one SMT-LIB query per obligation, portfolio z3 4.8.12 / z3 5.1.0 / cvc5 1.0; counterexamples replayed on the real code with go test -overlay",
    }],
    "checks": checks,
    "not_applicable": nas,
    "notes": "See /verif/DESIGN.md. Known findings: /verif/known_findings.json. Contracts live in /repo/**/zz_verif_contracts*.go (build tag verif).",
}
json.dump(m, open(os.path.join(V, "MANIFEST.json"), "w"), indent=1)
print("MANIFEST.json: %d checks, %d not_applicable" % (len(checks), len(nas)))
