#!/usr/bin/env python3
"""refcheck.py <worktree> <property> <ref-id>: stores the behaviour-preserving patches of <worktree>/REF under
/verif/refactors/<ref-id>/ and runs the property's quick check against a scratch copy of /repo with each patch applied.
A failing check here is a FALSE ALARM of the machinery (to be repaired or documented), not a finding."""
import sys, os, subprocess, shutil, json, tempfile
wt, prop, rid = sys.argv[1:4]
src = os.path.join(wt, "REF")
dst = os.path.join("/verif/refactors", rid)
os.makedirs(dst, exist_ok=True)
for f in os.listdir(src):
    shutil.copy(os.path.join(src, f), os.path.join(dst, f))
meta = json.load(open(os.path.join(dst, "meta.json")))
env = dict(os.environ, GOFLAGS="-mod=mod", GOPROXY="off")
results = []
for pinfo in meta.get("patches", []):
    pf = os.path.join(dst, pinfo["file"])
    tmp = tempfile.mkdtemp(prefix="refcheck-")
    try:
        repo = os.path.join(tmp, "repo")
        subprocess.check_call(["rsync", "-a", "--exclude", ".git", "/repo/", repo + "/"])
        r = subprocess.run(["patch", "-p1", "-s", "-d", repo, "-i", pf], capture_output=True, text=True)
        if r.returncode != 0:
            results.append((pinfo["file"], "patch does not apply", [])); pinfo["check"] = "patch does not apply"; continue
        b = subprocess.run(["go", "build", "./..."], cwd=repo, env=env, capture_output=True, text=True)
        if b.returncode != 0:
            results.append((pinfo["file"], "does not build", [b.stderr[-300:]])); pinfo["check"] = "does not build"; continue
        cenv = dict(env, VERIF_ROOT=tmp)
        for f in ("props.json", "known_findings.json"):
            shutil.copy(os.path.join("/verif", f), os.path.join(tmp, f))
        shutil.copytree("/verif/replay", os.path.join(tmp, "replay"))
        c = subprocess.run(["/verif/bin/govc", "check", prop, "--repo", repo, "--evidence", os.path.join(tmp, "ev")], capture_output=True, text=True, env=cenv)
        obls = [l.replace(tmp, "<scratch>") for l in c.stdout.splitlines() if l.startswith("FAILED-") or l.startswith("VIOLATION")]
        verdict = "quiet" if c.returncode == 0 else "FALSE ALARM"
        pinfo["check"] = verdict; pinfo["check_output"] = obls[:6]
        results.append((pinfo["file"], verdict, obls))
    finally:
        shutil.rmtree(tmp, ignore_errors=True)
meta["property"] = prop
json.dump(meta, open(os.path.join(dst, "meta.json"), "w"), indent=1)
for f, v, obls in results:
    print("%-12s %-12s %s" % (rid, f, v))
    for l in obls[:4]:
        print("     ", l[:230])
