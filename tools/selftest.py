#!/usr/bin/env python3
"""selftest.py [--only <substring>] [--expect pass|fail] [--jobs N]
Applies every /verif/selftest/*.patch to a scratch copy of /repo's working tree
(outside /repo and /verif), runs the property's quick check there and compares
with the expectation (must-fail mutants must raise a violation, must-pass edits
must verify). Scratch copies are removed as soon as each patch is done."""
import sys, os, subprocess, tempfile, shutil, json, glob, concurrent.futures, time
V = "/verif"
only = None; jobs = 4; expect = None
args = sys.argv[1:]
while args:
    a = args.pop(0)
    if a == "--only": only = args.pop(0)
    if a == "--expect": expect = args.pop(0)
    elif a == "--jobs": jobs = int(args.pop(0))
def run(meta):
    name = meta["name"]
    tmp = tempfile.mkdtemp(prefix="govc-selftest-")
    t0 = time.time()
    try:
        repo = os.path.join(tmp, "repo")
        subprocess.check_call(["rsync", "-a", "--exclude", ".git", "/repo/", repo + "/"])
        r = subprocess.run(["patch", "-p1", "-s", "-d", repo, "-i", os.path.join(V, "selftest", name + ".patch")], capture_output=True, text=True)
        if r.returncode != 0:
            return name, "SKIP (patch does not apply)", meta, 0
        env = dict(os.environ, VERIF_ROOT=tmp, GOFLAGS="-mod=mod", GOPROXY="off")
        for f in ("props.json", "known_findings.json"):
            shutil.copy(os.path.join(V, f), os.path.join(tmp, f))
        if os.path.isdir(os.path.join(V, "replay")):
            shutil.copytree(os.path.join(V, "replay"), os.path.join(tmp, "replay"))
        try:
            r = subprocess.run([os.path.join(V, "bin", "govc"), "check", meta["property"], "--repo", repo, "--evidence", os.path.join(tmp, "ev"), "--no-replay"],
                               capture_output=True, text=True, env=env, timeout=1500)
        except subprocess.TimeoutExpired:
            return name, "TIMEOUT (inconclusive: the check did not finish in 1500 s)", meta, time.time() - t0
        failed = r.returncode != 0
        want = meta["expect"] == "fail"
        obl = [l for l in r.stdout.splitlines() if l.startswith("FAILED-OBLIGATION") or l.startswith("FAILED-BOUNDED-CHECK")]
        verdict = "ok" if failed == want else "WRONG"
        return name, "%s (expected %s, check %s) %s" % (verdict, meta["expect"], "failed" if failed else "passed", obl[0][:150] if obl else ""), meta, time.time() - t0
    finally:
        shutil.rmtree(tmp, ignore_errors=True)
metas = []
for f in sorted(glob.glob(os.path.join(V, "selftest", "*.json"))):
    m = json.load(open(f))
    if only and only not in m["name"] and only != m["property"]:
        continue
    if expect and m["expect"] != expect:
        continue
    metas.append(m)
bad = 0
with concurrent.futures.ThreadPoolExecutor(max_workers=jobs) as ex:
    for name, verdict, meta, dt in ex.map(run, metas):
        print("%-40s %-4s %5.1fs %s" % (name, meta["property"], dt, verdict), flush=True)
        if verdict.startswith("WRONG"):
            bad += 1
print("selftest: %d patches, %d wrong" % (len(metas), bad))
sys.exit(1 if bad else 0)
