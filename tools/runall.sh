#!/bin/sh
# runall.sh [jobs]: every claimed property's quick check against /repo; summary lines only
J=${1:-4}
cd /verif
ids=$(python3 -c "import json;print(' '.join(p['id'] for p in json.load(open('props.json'))))")
mkdir -p /tmp/runall
echo $ids | tr ' ' '\n' | xargs -P $J -I{} sh -c './check {} --tier quick > /tmp/runall/{}.out 2>&1; echo "{} exit=$? $(tail -1 /tmp/runall/{}.out)"'
