#!/usr/bin/env python3
"""seedcheck.py <worktree> <property> <seed-id> [<pkgdir>]
Confirms a seeded change independently (demo passes without it, fails with it, touched package tests pass with it),
stores it under /verif/seeded/<seed-id>/ and runs the property's quick check against a scratch copy with the change."""
import sys, os, subprocess, shutil, json, tempfile, re
wt, prop, sid = sys.argv[1:4]
seed = os.path.join(wt, "SEED")
dst = os.path.join("/verif/seeded", sid)
os.makedirs(dst, exist_ok=True)
for f in os.listdir(seed):
    shutil.copy(os.path.join(seed, f), os.path.join(dst, f))
meta = json.load(open(os.path.join(dst, "meta.json")))
patch = os.path.join(dst, "patch.diff")
# which package does the demo belong to?
demo = [f for f in os.listdir(dst) if f.endswith("_test.go")][0]
pkgdir = sys.argv[4] if len(sys.argv) > 4 else None
if pkgdir is None:
    files = re.findall(r"^\+\+\+ b/(\S+)", open(patch).read(), re.M)
    pkgdir = os.path.dirname(files[0]) or "."
env = dict(os.environ, GOFLAGS="-mod=mod", GOPROXY="off")
tmp = tempfile.mkdtemp(prefix="seedcheck-")
ran = []
try:
    repo = os.path.join(tmp, "repo")
    subprocess.check_call(["rsync", "-a", "--exclude", ".git", "/repo/", repo + "/"])
    src = open(os.path.join(dst, demo)).read()
    shutil.copy(os.path.join(dst, demo), os.path.join(repo, pkgdir, "zz_seed_demo_test.go"))
    def gotest(args):
        cmd = ["go", "test", "-vet=off", "-count=1", "-timeout", "20m"] + args
        ran.append("cd <scratch copy of /repo>/%s && GOFLAGS=-mod=mod GOPROXY=off %s" % (pkgdir, " ".join(cmd)))
        return subprocess.run(cmd, cwd=os.path.join(repo, pkgdir), env=env, capture_output=True, text=True)
    r0 = gotest(["-run", "SeedDemo|Seed", "."])
    clean_pass = r0.returncode == 0
    r = subprocess.run(["patch", "-p1", "-s", "-d", repo, "-i", patch], capture_output=True, text=True)
    if r.returncode != 0:
        print("PATCH DOES NOT APPLY:", r.stdout, r.stderr); sys.exit(2)
    r1 = gotest(["-run", "SeedDemo|Seed", "."])
    seeded_fail = r1.returncode != 0
    os.remove(os.path.join(repo, pkgdir, "zz_seed_demo_test.go"))
    r2 = gotest(["."])
    suite_pass = r2.returncode == 0
    cenv = dict(env, VERIF_ROOT=tmp)
    for f in ("props.json", "known_findings.json"):
        shutil.copy(os.path.join("/verif", f), os.path.join(tmp, f))
    shutil.copytree("/verif/replay", os.path.join(tmp, "replay"))
    c = subprocess.run(["/verif/bin/govc", "check", prop, "--repo", repo, "--evidence", os.path.join(tmp, "ev")], capture_output=True, text=True, env=cenv)
    ran.append("VERIF_ROOT=<scratch> /verif/bin/govc check %s --repo <scratch copy with patch applied>" % prop)
    detected = c.returncode != 0
    obls = [l for l in c.stdout.splitlines() if l.startswith("FAILED-OBLIGATION") or l.startswith("FAILED-BOUNDED-CHECK") or l.startswith("VIOLATION")]
    meta.update({"property": prop, "confirmed": {"demo_passes_on_unmodified": clean_pass, "demo_fails_with_change": seeded_fail, "package_tests_pass_with_change": suite_pass},
                 "what_i_ran": ran, "check_detects": detected, "check_output": obls[:6]})
    json.dump(meta, open(os.path.join(dst, "meta.json"), "w"), indent=1)
    print(json.dumps(meta["confirmed"]), "detected=%s" % detected)
    for l in obls[:6]: print("  ", l[:220])
    if not seeded_fail: print(r1.stdout[-800:])
    if not clean_pass: print(r0.stdout[-800:], r0.stderr[-400:])
finally:
    shutil.rmtree(tmp, ignore_errors=True)
