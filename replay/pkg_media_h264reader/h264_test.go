//go:build verif

package h264reader

import (
	"bytes"
	"fmt"
	"io"
	"testing"
)

func init() {
	replayDrivers["(*H264Reader).NextNAL"] = replayNextNAL
}

// replayNextNAL: the reader's input is abstract in the model (any io.Reader), so the
// replay drives the real reader over Annex-B streams that place an SEI unit at every
// position (first, middle, last; 3- and 4-byte start codes; all chunk sizes 1..8)
// with the SEI setting of the model, and checks the clauses of the failed obligation.
func replayNextNAL(t *testing.T, r *replayFile) (bool, string) {
	include := r.Model["old(reader.includeSEI).0"] == "true"
	units := [][]byte{{0x67, 1, 2}, {0x06, 9, 9, 9}, {0x65, 3}, {0x06, 7}}
	for _, sc := range [][]byte{{0, 0, 1}, {0, 0, 0, 1}} {
		for perm := 0; perm < 4; perm++ {
			var stream []byte
			var want [][]byte
			for k := 0; k < len(units); k++ {
				u := units[(k+perm)%len(units)]
				stream = append(append(stream, sc...), u...)
				if include || u[0]&0x1f != 6 {
					want = append(want, u)
				}
			}
			for chunk := 1; chunk <= 8; chunk++ {
				rd, _ := NewReaderWithOptions(&chunkReader{data: stream, n: chunk}, WithIncludeSEI(include))
				var got [][]byte
				for {
					nal, err := rd.NextNAL()
					if err != nil {
						if err != io.EOF {
							return true, fmt.Sprintf("unexpected error %v", err)
						}
						break
					}
					if len(nal.Data) < 1 || nal.UnitType != NalUnitType(nal.Data[0]&0x1f) {
						return true, fmt.Sprintf("header fields do not match header byte: %+v", nal)
					}
					if !include && nal.UnitType == NalUnitTypeSEI {
						return true, fmt.Sprintf("SEI unit %v returned with inclusion off (start code %d bytes, chunk %d, unit order %d)", nal.Data, len(sc), chunk, perm)
					}
					got = append(got, nal.Data)
				}
				if len(got) != len(want) {
					return true, fmt.Sprintf("got %d units, want %d", len(got), len(want))
				}
				for i := range got {
					if !bytes.Equal(got[i], want[i]) {
						return true, fmt.Sprintf("unit %d: got %v want %v", i, got[i], want[i])
					}
				}
			}
		}
	}
	return false, fmt.Sprintf("all generated streams read back correctly (includeSEI=%v)", include)
}

type chunkReader struct {
	data []byte
	n    int
}

func (c *chunkReader) Read(p []byte) (int, error) {
	if len(c.data) == 0 {
		return 0, io.EOF
	}
	n := min(c.n, len(p), len(c.data))
	copy(p, c.data[:n])
	c.data = c.data[n:]
	return n, nil
}
