//go:build verif

package h265writer

import (
	"fmt"
	"testing"
)

func init() {
	replayDrivers["isKeyFrame"] = replayIsKeyFrame
}

func payloadFromModel(r *replayFile) []byte {
	n, _ := r.num("len(data).0")
	if n < 0 {
		n = 0
	}
	if n > 64 {
		n = 64
	}
	d := make([]byte, n)
	for i := range d {
		d[i] = 0x01
	}
	for i, k := range []string{"b0", "b1", "b2", "b3"} {
		if v, ok := r.num(k); ok && i < len(d) {
			d[i] = byte(v)
		}
	}
	return d
}

// replayIsKeyFrame runs the real predicate on the model's payload and compares it with
// the property's definition (aggregation packets: only the two one-sided clauses).
func replayIsKeyFrame(t *testing.T, r *replayFile) (bool, string) {
	d := payloadFromModel(r)
	got := isKeyFrame(d)
	must := specKeyStart265(d)
	isAP := len(d) >= 2 && specNaluType265(d[0]) == 48
	may := specKeyPlain265(d) || isAP
	if (must && !got) || (got && !may) {
		return true, fmt.Sprintf("isKeyFrame(% x) = %v, property says must=%v may=%v (FU header %#x: FuType=%d, the code decodes %d)", d, got, must, may, d[2], d[2]&0x3F, (d[2]&0x7E)>>1)
	}
	return false, fmt.Sprintf("isKeyFrame(% x) = %v agrees with the definition (must=%v may=%v)", d, got, must, may)
}
