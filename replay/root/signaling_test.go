//go:build verif && !js

package webrtc

import (
	"fmt"
	"sync/atomic"
	"testing"
)

func init() {
	replayDrivers["checkNextSignalingState"] = replayCheckNext
	replayDrivers["(*PeerConnection).setDescription"] = replaySetDescription
}

// replayCheckNext: the function is total over four integers; run it on the model and
// compare with the JSEP edge table (specEdge).
func replayCheckNext(t *testing.T, r *replayFile) (bool, string) {
	cur, _ := r.num("cur")
	next, _ := r.num("next")
	op, _ := r.num("op")
	typ, _ := r.num("sdpType")
	got, err := checkNextSignalingState(SignalingState(cur), SignalingState(next), stateChangeOp(op), SDPType(typ))
	want := specEdge(SignalingState(cur), stateChangeOp(op), SDPType(typ))
	okWanted := want != SignalingStateUnknown && want == SignalingState(next)
	detail := fmt.Sprintf("checkNextSignalingState(cur=%d,next=%d,op=%d,type=%d) = (%d, err=%v); JSEP edge target %d", cur, next, op, typ, got, err, want)
	if (err == nil) != okWanted {
		return true, detail
	}
	if err == nil && got != SignalingState(next) {
		return true, detail
	}
	if err != nil && got != SignalingState(cur) {
		return true, detail
	}
	return false, detail
}

// replaySetDescription builds a PeerConnection in the state named by the model
// (in-package: the fields are set directly; the obligations quantify over every
// state satisfying the representation invariant) and applies the description.
func replaySetDescription(t *testing.T, r *replayFile) (bool, string) {
	state, ok1 := r.num("old(pc.signalingState).0")
	typ, ok2 := r.num("old(sd.Type).0")
	op, ok3 := r.num("op")
	if !ok1 || !ok2 || !ok3 {
		return false, "model lacks state/type/op"
	}
	pc, err := NewPeerConnection(Configuration{})
	if err != nil {
		return false, err.Error()
	}
	defer pc.Close() //nolint
	var events atomic.Int32
	pc.OnSignalingStateChange(func(SignalingState) { events.Add(1) })
	pl, pr := &SessionDescription{Type: SDPTypeOffer, SDP: "pl"}, &SessionDescription{Type: SDPTypeOffer, SDP: "pr"}
	cl, crr := &SessionDescription{Type: SDPTypeOffer, SDP: "cl"}, &SessionDescription{Type: SDPTypeAnswer, SDP: "cr"}
	pc.currentLocalDescription, pc.currentRemoteDescription = cl, crr
	switch SignalingState(state) {
	case SignalingStateHaveLocalOffer:
		pc.pendingLocalDescription = pl
	case SignalingStateHaveRemoteOffer:
		pc.pendingRemoteDescription = pr
	case SignalingStateHaveLocalPranswer, SignalingStateHaveRemotePranswer:
		pc.pendingLocalDescription, pc.pendingRemoteDescription = pl, pr
	}
	pc.signalingState.Set(SignalingState(state))
	sd := &SessionDescription{Type: SDPType(typ), SDP: "v=0"}
	pc.lastOffer, pc.lastAnswer = sd.SDP, sd.SDP
	before := [4]*SessionDescription{pc.pendingLocalDescription, pc.pendingRemoteDescription, pc.currentLocalDescription, pc.currentRemoteDescription}
	errSet := pc.setDescription(sd, stateChangeOp(op))
	after := [4]*SessionDescription{pc.pendingLocalDescription, pc.pendingRemoteDescription, pc.currentLocalDescription, pc.currentRemoteDescription}
	want := specEdge(SignalingState(state), stateChangeOp(op), SDPType(typ))
	detail := fmt.Sprintf("state=%s op=%s type=%s: err=%v, state'=%s, pendings'=(%v,%v), JSEP target=%s",
		SignalingState(state), stateChangeOp(op), SDPType(typ), errSet, pc.SignalingState(), after[0] != nil, after[1] != nil, want)
	if (errSet == nil) != (want != SignalingStateUnknown) {
		return true, detail + " [edge acceptance differs from the JSEP table]"
	}
	if errSet == nil && pc.SignalingState() != want {
		return true, detail + " [wrong target state]"
	}
	if errSet != nil && (pc.SignalingState() != SignalingState(state) || before != after) {
		return true, detail + " [rejected call changed state]"
	}
	if !specDescInv(pc) {
		return true, detail + " [pending descriptions inconsistent with the state]"
	}
	if errSet == nil && SDPType(typ) == SDPTypeRollback && (after[0] != nil || after[1] != nil || after[2] != before[2] || after[3] != before[3]) {
		return true, detail + " [rollback bookkeeping]"
	}
	return false, detail
}
