//go:build verif && !js

package webrtc

import (
	"fmt"
	"testing"

	"github.com/pion/sdp/v3"
)

func init() {
	replayDrivers["(*PeerConnection).startRTPReceivers"] = replayStartRTPReceivers
}

// replayStartRTPReceivers: the counterexample is a track entry without SSRCs on the Plan-B
// path with a failing AddTransceiverFromKind. The replay builds exactly that through real
// inputs: a Plan-B connection whose MediaEngine has no audio codec, and a remote description
// whose audio section announces a simulcast (rid-only) track; startRTPReceivers is then called
// the way the operations queue calls it. A panic is caught here (in production it is not:
// the call runs on the queue goroutine and the process dies).
func replayStartRTPReceivers(t *testing.T, r *replayFile) (reproduced bool, detail string) {
	me := &MediaEngine{}
	if err := me.RegisterCodec(RTPCodecParameters{
		RTPCodecCapability: RTPCodecCapability{MimeType: MimeTypeVP8, ClockRate: 90000},
		PayloadType:        96,
	}, RTPCodecTypeVideo); err != nil {
		return false, err.Error()
	}
	pc, err := NewAPI(WithMediaEngine(me)).NewPeerConnection(Configuration{SDPSemantics: SDPSemanticsPlanB})
	if err != nil {
		return false, err.Error()
	}
	defer pc.Close() //nolint
	parsed := &sdp.SessionDescription{MediaDescriptions: []*sdp.MediaDescription{{
		MediaName: sdp.MediaName{Media: "audio", Protos: []string{"UDP", "TLS", "RTP", "SAVPF"}, Formats: []string{"111"}},
		Attributes: []sdp.Attribute{
			{Key: "mid", Value: "audio"},
			{Key: "msid", Value: "stream track"},
			{Key: "rid", Value: "a send"},
			{Key: "sendrecv"},
		},
	}}}
	desc := &SessionDescription{Type: SDPTypeOffer, parsed: parsed}
	tracks := trackDetailsFromSDP(pc.log, parsed)
	defer func() {
		if p := recover(); p != nil {
			reproduced = true
			detail = fmt.Sprintf("startRTPReceivers panicked: %v (track entries from trackDetailsFromSDP: %d, first has %d ssrcs and rids %v)",
				p, len(tracks), len(tracks[0].ssrcs), tracks[0].rids)
		}
	}()
	pc.startRTPReceivers(desc, nil)

	return false, fmt.Sprintf("no panic (track entries: %d)", len(tracks))
}
