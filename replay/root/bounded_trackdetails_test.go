//go:build verif && !js

package webrtc

// BOUNDED stand-in (never counted as proved) for the one C30 function outside the deductive
// sweep: trackDetailsFromSDP. Its no-panic argument needs the invariant "every track collected
// for the section has at least one SSRC" across nine nested loops with in-place filtering,
// which the verifier's per-sort loop havoc does not carry (DESIGN section 12). This driver
// runs the REAL function on every attribute sequence up to a stated length over a fixed
// alphabet of attribute shapes and reports any panic with the input that caused it.
//
// Bound: one media section (audio and video) with a=mid first, followed by every sequence of
// 0..N attributes from boundedAttrAlphabet (N = 4, or VERIF_BOUNDED_LEN); plus every pair of
// alphabet entries spread over two sections. Nothing outside that space is covered.

import (
	"fmt"
	"os"
	"strconv"
	"testing"

	"github.com/pion/logging"
	"github.com/pion/sdp/v3"
)

var boundedAttrAlphabet = []sdp.Attribute{
	{Key: "ssrc", Value: "1000 cname:x"},
	{Key: "ssrc", Value: "1000 msid:s t"},
	{Key: "ssrc", Value: "2000 msid:s t"},
	{Key: "ssrc", Value: "3000"},
	{Key: "ssrc", Value: "1000 msid:s"},
	{Key: "ssrc", Value: ""},
	{Key: "ssrc", Value: " "},
	{Key: "ssrc", Value: "x y z"},
	{Key: "ssrc", Value: "4294967296 cname:x"},
	{Key: "ssrc-group", Value: "FID 1000 2000"},
	{Key: "ssrc-group", Value: "FID 2000 1000"},
	{Key: "ssrc-group", Value: "FEC-FR 1000 3000"},
	{Key: "ssrc-group", Value: "FEC-FR 3000 1000"},
	{Key: "ssrc-group", Value: "FID 1000"},
	{Key: "ssrc-group", Value: "FID"},
	{Key: "ssrc-group", Value: ""},
	{Key: "ssrc-group", Value: "FID x 2000"},
	{Key: "ssrc-group", Value: "FID 1000 1000"},
	{Key: "ssrc-group", Value: "SIM 1000 2000"},
	{Key: "msid", Value: "s t"},
	{Key: "msid", Value: "s"},
	{Key: "msid", Value: ""},
	{Key: "rid", Value: "a send"},
	{Key: "rid", Value: ""},
	{Key: "simulcast", Value: "send a"},
	{Key: "sendrecv"},
}

func boundedTrackDetailsCase(log logging.LeveledLogger, sections [][]sdp.Attribute, kinds []string) (n int, panicked any) {
	desc := &sdp.SessionDescription{}
	for i, attrs := range sections {
		all := append([]sdp.Attribute{{Key: "mid", Value: strconv.Itoa(i)}}, attrs...)
		desc.MediaDescriptions = append(desc.MediaDescriptions, &sdp.MediaDescription{
			MediaName:  sdp.MediaName{Media: kinds[i%len(kinds)], Protos: []string{"UDP", "TLS", "RTP", "SAVPF"}, Formats: []string{"96"}},
			Attributes: all,
		})
	}
	defer func() {
		if p := recover(); p != nil {
			panicked = p
		}
	}()
	tracks := trackDetailsFromSDP(log, desc)
	for i := range tracks {
		_ = trackDetailsToRTPReceiveParameters(&tracks[i])
		_ = trackDetailsForSSRC(tracks, 1000)
		_ = trackDetailsForRID(tracks, "0", "a")
	}

	return len(tracks), nil
}

func TestVerifBoundedTrackDetails(t *testing.T) {
	maxLen := 4
	if v, err := strconv.Atoi(os.Getenv("VERIF_BOUNDED_LEN")); err == nil && v >= 0 && v <= 6 {
		maxLen = v
	}
	log := logging.NewDefaultLoggerFactory().NewLogger("bounded")
	cases, nontrivial := 0, 0
	report := func(sections [][]sdp.Attribute, kinds []string, p any) {
		fmt.Printf("BOUNDED: violation function=trackDetailsFromSDP panic=%q kinds=%v input=%q\n", fmt.Sprint(p), kinds, fmt.Sprint(sections))
	}
	idx := make([]int, maxLen)
	for _, kind := range []string{"video", "audio"} {
		for length := 0; length <= maxLen; length++ {
			for i := range idx {
				idx[i] = 0
			}
			for {
				attrs := make([]sdp.Attribute, length)
				for i := 0; i < length; i++ {
					attrs[i] = boundedAttrAlphabet[idx[i]]
				}
				n, p := boundedTrackDetailsCase(log, [][]sdp.Attribute{attrs}, []string{kind})
				cases++
				if n > 0 {
					nontrivial++
				}
				if p != nil {
					report([][]sdp.Attribute{attrs}, []string{kind}, p)

					return
				}
				// next index vector
				k := length - 1
				for k >= 0 {
					idx[k]++
					if idx[k] < len(boundedAttrAlphabet) {
						break
					}
					idx[k] = 0
					k--
				}
				if k < 0 {
					break
				}
			}
		}
	}
	for _, a := range boundedAttrAlphabet {
		for _, b := range boundedAttrAlphabet {
			for _, c := range boundedAttrAlphabet {
				secs := [][]sdp.Attribute{{a, c}, {b}}
				n, p := boundedTrackDetailsCase(log, secs, []string{"video", "audio"})
				cases++
				if n > 0 {
					nontrivial++
				}
				if p != nil {
					report(secs, []string{"video", "audio"}, p)

					return
				}
			}
		}
	}
	fmt.Printf("BOUNDED: ok function=trackDetailsFromSDP cases=%d nontrivial=%d maxlen=%d alphabet=%d\n", cases, nontrivial, maxLen, len(boundedAttrAlphabet))
}
