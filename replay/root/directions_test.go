//go:build verif && !js

package webrtc

import (
	"fmt"
	"strings"
	"testing"
)

func init() {
	replayDrivers["(*PeerConnection).SetRemoteDescription #directions"] = replayAnswerDirections
}

// replayAnswerDirections: the obligation's inputs are a connection state, so the replay
// searches the finite class it ranges over on the real code: for every prior local
// direction L of an already negotiated transceiver and every re-offered direction R a real
// pair negotiates audio sendrecv, the answerer's transceiver is put into L, the offerer
// re-offers with R, and the answer's direction is compared with RFC 3264 (specLegalAnswer).
func replayAnswerDirections(t *testing.T, r *replayFile) (bool, string) {
	if r.Kind != "step" && r.Kind != "invariant" && r.Kind != "ensures" && r.Kind != "atcall" && r.Kind != "break" || strings.Contains(r.Obligation, "rangeindex") {
		return false, "the failed obligation is not a direction clause; nothing to search"
	}
	dirs := []RTPTransceiverDirection{
		RTPTransceiverDirectionSendrecv, RTPTransceiverDirectionSendonly,
		RTPTransceiverDirectionRecvonly, RTPTransceiverDirectionInactive,
	}
	var bad []string
	for _, local := range dirs {
		for _, offered := range dirs {
			ans, err := answerDirectionFor(local, offered)
			if err != nil {
				return false, fmt.Sprintf("driver error for local=%s offered=%s: %v", local, offered, err)
			}
			if offered == RTPTransceiverDirectionSendonly && (local == RTPTransceiverDirectionSendrecv || local == RTPTransceiverDirectionSendonly) {
				// the recorded known finding (known_findings.json): not a new violation
				continue
			}
			if !specLegalAnswer(offered, ans) {
				bad = append(bad, fmt.Sprintf("offered %s to a %s transceiver is answered %s", offered, local, ans))
			}
		}
	}
	if len(bad) > 0 {
		return true, "illegal answer directions (RFC 3264 6.1): " + strings.Join(bad, "; ")
	}

	return false, "all 16 (prior local direction, re-offered direction) pairs are answered legally"
}

func answerDirectionFor(local, offered RTPTransceiverDirection) (RTPTransceiverDirection, error) {
	offerer, err := NewPeerConnection(Configuration{})
	if err != nil {
		return 0, err
	}
	defer offerer.Close() //nolint
	answerer, err := NewPeerConnection(Configuration{})
	if err != nil {
		return 0, err
	}
	defer answerer.Close() //nolint
	ot, err := offerer.AddTransceiverFromKind(RTPCodecTypeAudio, RTPTransceiverInit{Direction: RTPTransceiverDirectionSendrecv})
	if err != nil {
		return 0, err
	}
	exchange := func() (SessionDescription, error) {
		offer, err := offerer.CreateOffer(nil)
		if err != nil {
			return SessionDescription{}, err
		}
		if err = offerer.SetLocalDescription(offer); err != nil {
			return SessionDescription{}, err
		}
		if err = answerer.SetRemoteDescription(offer); err != nil {
			return SessionDescription{}, err
		}
		answer, err := answerer.CreateAnswer(nil)
		if err != nil {
			return SessionDescription{}, err
		}
		if err = answerer.SetLocalDescription(answer); err != nil {
			return SessionDescription{}, err
		}
		if err = offerer.SetRemoteDescription(answer); err != nil {
			return SessionDescription{}, err
		}

		return answer, nil
	}
	if _, err = exchange(); err != nil {
		return 0, err
	}
	trs := answerer.GetTransceivers()
	if len(trs) != 1 {
		return 0, fmt.Errorf("answerer has %d transceivers", len(trs))
	}
	trs[0].setDirection(local)
	ot.setDirection(offered)
	answer, err := exchange()
	if err != nil {
		return 0, err
	}
	for _, m := range answer.parsed.MediaDescriptions {
		for _, d := range []RTPTransceiverDirection{
			RTPTransceiverDirectionSendrecv, RTPTransceiverDirectionSendonly,
			RTPTransceiverDirectionRecvonly, RTPTransceiverDirectionInactive,
		} {
			if _, ok := m.Attribute(d.String()); ok {
				return d, nil
			}
		}
	}

	return 0, fmt.Errorf("no direction attribute in the answer")
}
