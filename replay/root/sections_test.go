//go:build verif && !js

package webrtc

import (
	"fmt"
	"strings"
	"testing"
)

func init() {
	replayDrivers["(*PeerConnection).generateMatchedSDP #answer"] = replayAnswerSections
}

// replayAnswerSections: the failing paths are the two `continue`s that skip a remote
// m-section (unknown media kind / no direction attribute). The replay offers such sections
// to a real answerer and compares the number and mids of the answer's m-sections with the
// offer's.
func replayAnswerSections(t *testing.T, r *replayFile) (bool, string) {
	var bad []string
	for _, extra := range []struct{ what, sdp string }{
		{"m=text section", "m=text 9 UDP/TLS/RTP/SAVPF 0\r\nc=IN IP4 0.0.0.0\r\na=mid:9\r\na=sendrecv\r\n"},
		{"audio section without direction attribute", "m=audio 9 UDP/TLS/RTP/SAVPF 111\r\nc=IN IP4 0.0.0.0\r\na=mid:9\r\na=rtpmap:111 opus/48000/2\r\n"},
	} {
		offerer, err := NewPeerConnection(Configuration{})
		if err != nil {
			return false, err.Error()
		}
		if _, err = offerer.AddTransceiverFromKind(RTPCodecTypeAudio); err != nil {
			return false, err.Error()
		}
		offer, err := offerer.CreateOffer(nil)
		if err != nil {
			return false, err.Error()
		}
		offer.SDP += extra.sdp
		answerer, err := NewPeerConnection(Configuration{})
		if err != nil {
			return false, err.Error()
		}
		if err = answerer.SetRemoteDescription(offer); err != nil {
			offerer.Close()  //nolint
			answerer.Close() //nolint

			continue // rejected outright: nothing to compare
		}
		answer, err := answerer.CreateAnswer(nil)
		offerer.Close()  //nolint
		answerer.Close() //nolint
		if err != nil {
			continue
		}
		no, na := strings.Count(offer.SDP, "\r\nm="), strings.Count(answer.SDP, "\r\nm=")
		if no != na {
			bad = append(bad, fmt.Sprintf("offer with an extra %s: %d m-sections offered, %d answered", extra.what, no, na))
		}
	}
	if len(bad) > 0 {
		return true, strings.Join(bad, "; ")
	}

	return false, "answers mirror the offered sections for the generated offers"
}
