//go:build verif && !js

package webrtc

import (
	"fmt"
	"strings"
	"testing"
)

func init() {
	replayDrivers["(*PeerConnection).generateMatchedSDP #datamid"] = replayDataSectionMid
}

// replayDataSectionMid: the obligation ranges over a connection state (the section list built
// from the remote description), so the replay builds the input class named by the recorded
// finding through real calls: a remote offer whose two media sections carry the mids "0" and
// "2" is answered; the answerer then creates its first data channel and an offer. The data
// section gets the decimal of its position (2) as mid, which the second section already has.
func replayDataSectionMid(t *testing.T, r *replayFile) (bool, string) {
	// scenario 1 is the input class of the recorded known finding (known_findings.json); a
	// reproduction counts only when a scenario outside that class yields a reused mid
	type scenario struct {
		name       string
		secondMid  string // mid the remote gives its second section ("" = one section only)
		addLocal   bool   // the answerer adds a transceiver of its own before the data channel
		knownClass bool
	}
	var details []string
	reproduced := false
	for _, sc := range []scenario{
		{"remote mids 0 2, then a data channel", "2", false, true},
		{"remote mid 0, then a new transceiver and a data channel", "", true, false},
		{"remote mids 0 1, then a data channel", "1", false, false},
		{"remote mids 0 1, then a new transceiver and a data channel", "1", true, false},
	} {
		mids, err := dataSectionScenario(sc.secondMid, sc.addLocal)
		if err != nil {
			details = append(details, sc.name+": driver error "+err.Error())

			continue
		}
		seen := map[string]int{}
		dup := ""
		for _, m := range mids {
			seen[m]++
			if seen[m] > 1 {
				dup = m
			}
		}
		switch {
		case dup != "" && sc.knownClass:
			details = append(details, fmt.Sprintf("%s: mids %v (mid %q reused — the recorded known finding)", sc.name, mids, dup))
		case dup != "":
			reproduced = true
			details = append(details, fmt.Sprintf("%s: mids %v — mid %q is used by %d sections", sc.name, mids, dup, seen[dup]))
		default:
			details = append(details, fmt.Sprintf("%s: mids %v distinct", sc.name, mids))
		}
	}

	return reproduced, strings.Join(details, "; ")
}

func dataSectionScenario(secondMid string, addLocal bool) ([]string, error) {
	offerer, err := NewPeerConnection(Configuration{})
	if err != nil {
		return nil, err
	}
	defer offerer.Close() //nolint
	answerer, err := NewPeerConnection(Configuration{})
	if err != nil {
		return nil, err
	}
	defer answerer.Close() //nolint
	if _, err = offerer.AddTransceiverFromKind(RTPCodecTypeAudio); err != nil {
		return nil, err
	}
	if secondMid != "" {
		if _, err = offerer.AddTransceiverFromKind(RTPCodecTypeVideo); err != nil {
			return nil, err
		}
	}
	offer, err := offerer.CreateOffer(nil)
	if err != nil {
		return nil, err
	}
	if secondMid != "" && secondMid != "1" {
		// the remote peer is free to choose its mids
		offer.SDP = strings.ReplaceAll(offer.SDP, "a=mid:1\r\n", "a=mid:"+secondMid+"\r\n")
		offer.SDP = strings.ReplaceAll(offer.SDP, "a=group:BUNDLE 0 1\r\n", "a=group:BUNDLE 0 "+secondMid+"\r\n")
	}
	if err = answerer.SetRemoteDescription(offer); err != nil {
		return nil, err
	}
	answer, err := answerer.CreateAnswer(nil)
	if err != nil {
		return nil, err
	}
	if err = answerer.SetLocalDescription(answer); err != nil {
		return nil, err
	}
	if addLocal {
		if _, err = answerer.AddTransceiverFromKind(RTPCodecTypeVideo); err != nil {
			return nil, err
		}
	}
	if _, err = answerer.CreateDataChannel("data", nil); err != nil {
		return nil, err
	}
	reoffer, err := answerer.CreateOffer(nil)
	if err != nil {
		return nil, err
	}
	parsed, err := reoffer.Unmarshal()
	if err != nil {
		return nil, err
	}
	var mids []string
	for _, m := range parsed.MediaDescriptions {
		mid, _ := m.Attribute("mid")
		mids = append(mids, mid)
	}

	return mids, nil
}
