//go:build verif && !js

package webrtc

// Replay drivers for counterexamples found by govc (injected with go test -overlay;
// nothing is written into /repo). A driver rebuilds the inputs of the failed
// obligation from the solver's model, runs the REAL function and evaluates the
// property with the spec functions of zz_verif_spec.go as the oracle.

import (
	"encoding/json"
	"fmt"
	"os"
	"strconv"
	"strings"
	"testing"
)

type replayFile struct {
	Property   string            `json:"property"`
	Unit       string            `json:"unit"`
	Obligation string            `json:"obligation"`
	Kind       string            `json:"kind"`
	Pos        string            `json:"pos"`
	Model      map[string]string `json:"model"`
}

// bv parses an SMT bit-vector literal (#x.. / #b..) as a signed 64-bit value of its width.
func bv(s string) (int64, bool) {
	s = strings.TrimSpace(s)
	var u uint64
	var err error
	var w int
	switch {
	case strings.HasPrefix(s, "#x"):
		u, err = strconv.ParseUint(s[2:], 16, 64)
		w = 4 * (len(s) - 2)
	case strings.HasPrefix(s, "#b"):
		u, err = strconv.ParseUint(s[2:], 2, 64)
		w = len(s) - 2
	default:
		return 0, false
	}
	if err != nil {
		return 0, false
	}
	if w < 64 && u&(1<<(uint(w)-1)) != 0 {
		return int64(u) - (1 << uint(w)), true
	}
	return int64(u), true
}

func (r *replayFile) num(name string) (int64, bool) {
	v, ok := r.Model[name]
	if !ok {
		return 0, false
	}
	return bv(v)
}

var replayDrivers = map[string]func(t *testing.T, r *replayFile) (reproduced bool, detail string){}

func TestVerifReplay(t *testing.T) {
	path := os.Getenv("VERIF_REPLAY_FILE")
	if path == "" {
		t.Skip("no replay file")
	}
	data, err := os.ReadFile(path)
	if err != nil {
		t.Fatal(err)
	}
	var r replayFile
	if err := json.Unmarshal(data, &r); err != nil {
		t.Fatal(err)
	}
	drv := replayDrivers[r.Unit]
	if drv == nil {
		fmt.Println("REPLAY: no-driver for unit", r.Unit)
		return
	}
	ok, detail := runDriver(drv, t, &r)
	if ok {
		fmt.Println("REPLAY: reproduced", detail)
	} else {
		fmt.Println("REPLAY: not-reproduced", detail)
	}
}

// runDriver runs a driver and turns a panic of the real code on the model's input into a
// result: for a failed safety obligation (the verifier said "this can panic") the panic is the
// reproduction; for any other obligation it is reported but not counted as one.
func runDriver(drv func(t *testing.T, r *replayFile) (bool, string), t *testing.T, r *replayFile) (ok bool, detail string) {
	defer func() {
		if p := recover(); p != nil {
			detail = fmt.Sprintf("the real code panicked on the input built from the model: %v", p)
			switch r.Kind {
			case "bounds", "nil", "divzero", "shift", "typeassert", "panic":
				ok = true
			default:
				ok = false
			}
		}
	}()
	return drv(t, r)
}
