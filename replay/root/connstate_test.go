//go:build verif && !js

package webrtc

import (
	"fmt"
	"sync/atomic"
	"testing"
	"time"
)

func init() {
	replayDrivers["(*PeerConnection).updateConnectionState"] = replayUpdateConnectionState
}

// replayUpdateConnectionState puts a real PeerConnection into the closed flag /
// previous state of the model, calls the real function and compares the new state
// and the number of handler invocations with the W3C aggregate (specConnState).
func replayUpdateConnectionState(t *testing.T, r *replayFile) (bool, string) {
	ice, ok1 := r.num("iceConnectionState")
	dtls, ok2 := r.num("dtlsTransportState")
	if !ok1 || !ok2 {
		return false, "model lacks ice/dtls state"
	}
	closed := r.Model["old(pc.isClosed.Load()).0"] == "true"
	prev, havePrev := r.num("old(pc.ConnectionState()).0")
	pc, err := NewPeerConnection(Configuration{})
	if err != nil {
		return false, err.Error()
	}
	defer pc.Close() //nolint
	if !havePrev {
		prev = int64(PeerConnectionStateNew)
	}
	var events atomic.Int32
	var last atomic.Int32
	pc.OnConnectionStateChange(func(s PeerConnectionState) { events.Add(1); last.Store(int32(s)) })
	pc.connectionState.Store(PeerConnectionState(prev))
	pc.isClosed.Store(closed)
	pc.updateConnectionState(ICEConnectionState(ice), DTLSTransportState(dtls))
	time.Sleep(50 * time.Millisecond)
	pc.isClosed.Store(false)
	want := specConnState(closed, ICEConnectionState(ice), DTLSTransportState(dtls))
	got := pc.ConnectionState()
	wantEvents := int32(0)
	if PeerConnectionState(prev) != want {
		wantEvents = 1
	}
	detail := fmt.Sprintf("closed=%v ice=%s dtls=%s prev=%s: state=%s events=%d; W3C aggregate=%s expected events=%d",
		closed, ICEConnectionState(ice), DTLSTransportState(dtls), PeerConnectionState(prev), got, events.Load(), want, wantEvents)
	return got != want || events.Load() != wantEvents, detail
}
