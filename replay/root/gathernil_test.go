//go:build verif && !js

package webrtc

import (
	"fmt"
	"sync"
	"testing"
	"time"
)

func init() {
	replayDrivers["(*ICEGatherer).flushCandidates"] = replayGatherNil
	replayDrivers["(*ICEGatherer).Gather$1"] = replayGatherNil
}

// replayGatherNil drives a real PeerConnection through the history the failed
// obligation describes: gathering completes (the nil marker is delivered), then
// SetLocalDescription runs again (a renegotiation offer) and flushes the pool once
// more. The property demands exactly one nil marker and no candidate after it.
func replayGatherNil(t *testing.T, r *replayFile) (bool, string) {
	for _, pool := range []uint8{0, 1} {
		pc, err := NewPeerConnection(Configuration{ICECandidatePoolSize: pool})
		if err != nil {
			return false, err.Error()
		}
		var mu sync.Mutex
		nils, afterNil := 0, 0
		pc.OnICECandidate(func(c *ICECandidate) {
			mu.Lock()
			defer mu.Unlock()
			if c == nil {
				nils++
			} else if nils > 0 {
				afterNil++
			}
		})
		if _, err = pc.CreateDataChannel("d", nil); err != nil {
			return false, err.Error()
		}
		done := GatheringCompletePromise(pc)
		offer, err := pc.CreateOffer(nil)
		if err != nil {
			return false, err.Error()
		}
		if err = pc.SetLocalDescription(offer); err != nil {
			return false, err.Error()
		}
		select {
		case <-done:
		case <-time.After(20 * time.Second):
			_ = pc.Close()
			return false, "gathering did not complete"
		}
		time.Sleep(200 * time.Millisecond)
		// complete the first negotiation with a second peer, then renegotiate
		pc2, err := NewPeerConnection(Configuration{})
		if err != nil {
			return false, err.Error()
		}
		if err = pc2.SetRemoteDescription(*pc.LocalDescription()); err != nil {
			return false, err.Error()
		}
		answer, err := pc2.CreateAnswer(nil)
		if err != nil {
			return false, err.Error()
		}
		if err = pc2.SetLocalDescription(answer); err != nil {
			return false, err.Error()
		}
		if err = pc.SetRemoteDescription(answer); err != nil {
			return false, err.Error()
		}
		offer2, err := pc.CreateOffer(nil)
		if err != nil {
			return false, err.Error()
		}
		if err = pc.SetLocalDescription(offer2); err != nil {
			return false, err.Error()
		}
		time.Sleep(200 * time.Millisecond)
		mu.Lock()
		n, a := nils, afterNil
		mu.Unlock()
		_ = pc.Close()
		_ = pc2.Close()
		if n != 1 || a != 0 {
			return true, fmt.Sprintf("pool size %d: gathering complete, then a second SetLocalDescription: OnICECandidate saw %d nil markers and %d candidates after the first", pool, n, a)
		}
	}
	return false, "one nil marker in every history tried"
}
