//go:build verif && !js

package webrtc

import (
	"fmt"
	"os"
	"regexp"
	"strconv"
	"strings"
	"sync/atomic"
	"testing"
)

func init() {
	replayDrivers["(*PeerConnection).SetRemoteDescription"] = replayRejectedRemote
}

// rejectClass: a way of making a valid remote offer invalid, and the source text that
// identifies the return site of SetRemoteDescription which rejects it.
type rejectClass struct {
	name   string
	site   string // text found at (or just before) the return site in peerconnection.go
	mutate func(sdp string) string
}

var rejectClasses = []rejectClass{
	{"media section without a=mid", "errPeerConnRemoteDescriptionWithoutMidValue", func(s string) string {
		return regexp.MustCompile(`(?m)^a=mid:.*\r?\n`).ReplaceAllString(s, "")
	}},
	{"no ICE ufrag/pwd", "extractICEDetails(", func(s string) string {
		s = regexp.MustCompile(`(?m)^a=ice-ufrag:.*\r?\n`).ReplaceAllString(s, "")
		return regexp.MustCompile(`(?m)^a=ice-pwd:.*\r?\n`).ReplaceAllString(s, "")
	}},
	{"no fingerprint", "extractFingerprint(", func(s string) string {
		return regexp.MustCompile(`(?m)^a=fingerprint:.*\r?\n`).ReplaceAllString(s, "")
	}},
	{"payload type 300 in the m= line", "updateFromRemoteDescription(", func(s string) string {
		return regexp.MustCompile(`(?m)^(m=video \S+ \S+ .*?)(\r?)$`).ReplaceAllString(s, "$1 300$2")
	}},
}

// siteText returns the source lines around a "file.go:line" position (the return site and
// the four lines before it).
func siteText(pos string) string {
	i := strings.LastIndex(pos, ":")
	if i < 0 {
		return ""
	}
	line, err := strconv.Atoi(pos[i+1:])
	if err != nil {
		return ""
	}
	data, err := os.ReadFile(pos[:i])
	if err != nil {
		return ""
	}
	lines := strings.Split(string(data), "\n")
	lo, hi := line-5, line
	if lo < 0 {
		lo = 0
	}
	if hi > len(lines) {
		hi = len(lines)
	}
	return strings.Join(lines[lo:hi], "\n")
}

// replayRejectedRemote: the failed obligation names a return site of SetRemoteDescription
// that can return an error after the description was applied. The driver builds a real
// offer, invalidates it in the way that site rejects, applies it to a fresh PeerConnection
// and compares the negotiation state before and after the rejected call.
func replayRejectedRemote(t *testing.T, r *replayFile) (bool, string) {
	text := siteText(r.Pos)
	var tried []string
	for _, c := range rejectClasses {
		if !strings.Contains(text, c.site) {
			continue
		}
		tried = append(tried, c.name)
		offerer, err := NewPeerConnection(Configuration{})
		if err != nil {
			return false, err.Error()
		}
		if _, err = offerer.AddTransceiverFromKind(RTPCodecTypeVideo); err != nil {
			return false, err.Error()
		}
		offer, err := offerer.CreateOffer(nil)
		if err != nil {
			return false, err.Error()
		}
		done := GatheringCompletePromise(offerer)
		if err = offerer.SetLocalDescription(offer); err != nil {
			return false, err.Error()
		}
		<-done
		sdp := c.mutate(offerer.LocalDescription().SDP)
		_ = offerer.Close()

		pc, err := NewPeerConnection(Configuration{})
		if err != nil {
			return false, err.Error()
		}
		var events atomic.Int32
		pc.OnSignalingStateChange(func(SignalingState) { events.Add(1) })
		before := pc.SignalingState()
		pr, cr := pc.PendingRemoteDescription(), pc.CurrentRemoteDescription()
		err = pc.SetRemoteDescription(SessionDescription{Type: SDPTypeOffer, SDP: sdp})
		after := pc.SignalingState()
		pr2, cr2 := pc.PendingRemoteDescription(), pc.CurrentRemoteDescription()
		n := events.Load()
		_ = pc.Close()
		if err != nil && (after != before || pr != pr2 || cr != cr2 || n != 0) {
			return true, fmt.Sprintf("remote offer with %s: SetRemoteDescription returned %q but the signaling state went %s -> %s, pending remote description set: %v, %d state-change events",
				c.name, err, before, after, pr2 != nil, n)
		}
	}
	if len(tried) == 0 {
		return false, "no invalid-description class is known for the return site " + r.Pos
	}
	return false, "rejected without any change: " + strings.Join(tried, ", ")
}
