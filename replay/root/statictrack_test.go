//go:build verif && !js

package webrtc

import (
	"fmt"
	"reflect"
	"testing"

	"github.com/pion/rtp"
)

func init() {
	replayDrivers["(*TrackLocalStaticRTP).writeRTP"] = replayStaticRTP
	replayDrivers["(*TrackLocalStaticRTP).WriteRTP"] = replayStaticRTP
	replayDrivers["(*TrackLocalStaticRTP).Unbind"] = replayStaticRTP
}

type recWriter struct {
	id   int
	seen *[]recCall
}
type recCall struct {
	id      int
	hdr     rtp.Header
	payload []byte
}

func (w *recWriter) WriteRTP(h *rtp.Header, p []byte) (int, error) {
	*w.seen = append(*w.seen, recCall{w.id, h.Clone(), p})
	return len(p), nil
}
func (w *recWriter) Write(b []byte) (int, error) { return len(b), nil }

type recCtx struct {
	baseTrackLocalContext
	id string
}

func (c *recCtx) ID() string { return c.id }

// replayStaticRTP drives the real track with 0..4 recording bindings, writes a packet
// (with and without Packet.PaddingSize), unbinds each binding in turn and checks the
// fan-out, the rewriting, the caller's packet and that removed bindings get nothing.
func replayStaticRTP(t *testing.T, r *replayFile) (bool, string) {
	for n := 0; n <= 4; n++ {
		for rm := -1; rm < n; rm++ {
			for _, padSize := range []byte{0, 5} {
				var seen []recCall
				tr := &TrackLocalStaticRTP{}
				for k := 0; k < n; k++ {
					tr.bindings = append(tr.bindings, trackBinding{id: fmt.Sprint("b", k), ssrc: SSRC(1000 + k), payloadType: PayloadType(96 + k), writeStream: &recWriter{k, &seen}})
				}
				removed := -1
				if rm >= 0 {
					if err := tr.Unbind(&recCtx{id: fmt.Sprint("b", rm)}); err != nil {
						return true, fmt.Sprintf("Unbind of bound id b%d failed: %v", rm, err)
					}
					removed = rm
					if len(tr.bindings) != n-1 {
						return true, fmt.Sprintf("Unbind left %d bindings of %d", len(tr.bindings), n)
					}
				}
				pkt := &rtp.Packet{Header: rtp.Header{Version: 2, Marker: true, PayloadType: 111, SequenceNumber: 7, Timestamp: 99, SSRC: 5, CSRC: []uint32{1, 2}},
					Payload: []byte{1, 2, 3}, PaddingSize: padSize}
				before := pkt.Clone()
				if err := tr.WriteRTP(pkt); err != nil {
					return false, err.Error()
				}
				if !reflect.DeepEqual(before, pkt) {
					return true, fmt.Sprintf("caller's packet modified: %+v -> %+v", before.Header, pkt.Header)
				}
				want := n
				if removed >= 0 {
					want = n - 1
				}
				if len(seen) != want {
					return true, fmt.Sprintf("%d bindings (removed %d): %d writes", n, removed, len(seen))
				}
				got := map[int]int{}
				for _, c := range seen {
					got[c.id]++
					if c.id == removed {
						return true, fmt.Sprintf("removed binding b%d still received a packet", removed)
					}
					if c.hdr.SSRC != uint32(1000+c.id) || c.hdr.PayloadType != uint8(96+c.id) || c.hdr.SequenceNumber != 7 || c.hdr.Timestamp != 99 || !c.hdr.Marker ||
						len(c.hdr.CSRC) != 2 || len(c.payload) != 3 || c.hdr.PaddingSize != padSize {
						return true, fmt.Sprintf("binding b%d got header %+v payload %v (padding wanted %d)", c.id, c.hdr, c.payload, padSize)
					}
				}
				for id, cnt := range got {
					if cnt != 1 {
						return true, fmt.Sprintf("binding b%d received %d packets", id, cnt)
					}
				}
			}
		}
	}
	return false, "fan-out, rewriting and unbind behave as specified for 0..4 bindings"
}
