//go:build verif && !js

package webrtc

import (
	"bytes"
	"encoding/binary"
	"fmt"
	"io"
	"sync"
	"testing"
	"time"

	"github.com/pion/interceptor"
)

func init() {
	replayDrivers["(*RTPReceiver).maybeStartRepairStreamReader$1"] = replayRTX
}

type rtxFakeReader struct {
	pkts [][]byte
}

func (f *rtxFakeReader) Read(b []byte, a interceptor.Attributes) (int, interceptor.Attributes, error) {
	if len(f.pkts) == 0 {
		return 0, nil, io.EOF
	}
	n := copy(b, f.pkts[0])
	f.pkts = f.pkts[1:]
	return n, a, nil
}

// replayRTX feeds the real repair-stream goroutine with well-formed RTX packets of
// every CSRC count, with and without extension and padding, and compares what it
// forwards with an independent RFC 4588 oracle (the model's input is abstract).
func replayRTX(t *testing.T, r *replayFile) (bool, string) {
	const pt, ssrc = 96, 0x11223344
	for cc := 0; cc < 16; cc++ {
		for ext := 0; ext < 2; ext++ {
			for pad := 0; pad < 2; pad++ {
				for plen := 0; plen < 5; plen++ {
					hdr := []byte{byte(0x80 | cc | ext<<4 | pad<<5), 0x80 | 97, 0x12, 0x34, 9, 8, 7, 6, 0xaa, 0xbb, 0xcc, 0xdd}
					for k := 0; k < 4*cc; k++ {
						hdr = append(hdr, byte(0x40+k))
					}
					if ext == 1 {
						hdr = append(hdr, 0xbe, 0xde, 0, 2, 1, 2, 3, 4, 5, 6, 7, 8)
					}
					payload := []byte{}
					if plen >= 2 {
						payload = append(payload, 0x56, 0x78) // OSN
						for k := 2; k < plen; k++ {
							payload = append(payload, byte(0xe0+k))
						}
					} else {
						for k := 0; k < plen; k++ {
							payload = append(payload, 0x99)
						}
					}
					if pad == 1 {
						payload = append(payload, 0, 0, 3)
					}
					pkt := append(append([]byte{}, hdr...), payload...)
					rcv := &RTPReceiver{closedChan: make(chan any), rtxPool: sync.Pool{New: func() any { return make([]byte, 1500) }}}
					ts := &trackStreams{track: &TrackRemote{payloadType: pt, ssrc: ssrc}, repairInterceptor: &rtxFakeReader{pkts: [][]byte{pkt}},
						repairStreamChannel: make(chan rtxPacketWithAttributes, 2), startRepairReaderImmediately: true}
					rcv.maybeStartRepairStreamReader(ts)
					var got []byte
					select {
					case p := <-ts.repairStreamChannel:
						got = p.pkt
					case <-time.After(100 * time.Millisecond):
					}
					close(rcv.closedChan)
					realPayload := plen
					if plen < 2 {
						if got != nil {
							return true, fmt.Sprintf("cc=%d ext=%d pad=%d: packet with %d payload bytes (no room for an OSN) was forwarded", cc, ext, pad, realPayload)
						}
						continue
					}
					want := append([]byte{}, pkt[:len(hdr)]...)
					want[1] = (pkt[1] & 0x80) | pt
					want[2], want[3] = 0x56, 0x78
					binary.BigEndian.PutUint32(want[8:12], ssrc)
					want = append(want, pkt[len(hdr)+2:]...)
					if !bytes.Equal(got, want) {
						return true, fmt.Sprintf("cc=%d ext=%d pad=%d payload=%d: forwarded %x, RFC 4588 original packet is %x", cc, ext, pad, plen, got, want)
					}
				}
			}
		}
	}
	return false, "all generated RTX packets are unwrapped per RFC 4588"
}
