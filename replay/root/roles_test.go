//go:build verif && !js

package webrtc

import (
	"fmt"
	"strings"
	"testing"

	"github.com/pion/sdp/v3"
)

func init() {
	replayDrivers["(*PeerConnection).CreateAnswer #roles"] = replayAnswerRoles
}

// replayAnswerRoles: a real offerer produces an offer; its a=setup line and ice-lite
// flag are rewritten to the model's values; a real answerer configured as in the
// model answers it; the answer's a=setup is compared with RFC 5763 (specAnswerSetup).
func replayAnswerRoles(t *testing.T, r *replayFile) (bool, string) {
	cfg, _ := r.num("cfgRole")
	offerRole, _ := r.num("offerRole")
	remoteLite, _ := r.num("remoteLite")
	localLite := r.Model["localLite"] == "true"
	offerer, err := NewPeerConnection(Configuration{})
	if err != nil {
		return false, err.Error()
	}
	defer offerer.Close() //nolint
	if _, err = offerer.CreateDataChannel("d", nil); err != nil {
		return false, err.Error()
	}
	offer, err := offerer.CreateOffer(nil)
	if err != nil {
		return false, err.Error()
	}
	setup := "actpass"
	switch DTLSRole(offerRole) {
	case DTLSRoleClient:
		setup = "active"
	case DTLSRoleServer:
		setup = "passive"
	}
	offer.SDP = strings.ReplaceAll(offer.SDP, "a=setup:actpass", "a=setup:"+setup)
	if remoteLite != 0 {
		offer.SDP = strings.Replace(offer.SDP, "t=0 0\r\n", "t=0 0\r\na=ice-lite\r\n", 1)
	}
	se := SettingEngine{}
	if DTLSRole(cfg) == DTLSRoleClient || DTLSRole(cfg) == DTLSRoleServer {
		if err = se.SetAnsweringDTLSRole(DTLSRole(cfg)); err != nil {
			return false, err.Error()
		}
	}
	se.SetLite(localLite)
	answerer, err := NewAPI(WithSettingEngine(se)).NewPeerConnection(Configuration{})
	if err != nil {
		return false, err.Error()
	}
	defer answerer.Close() //nolint
	if err = answerer.SetRemoteDescription(offer); err != nil {
		return false, "SetRemoteDescription: " + err.Error()
	}
	answer, err := answerer.CreateAnswer(nil)
	if err != nil {
		return false, "CreateAnswer: " + err.Error()
	}
	got := "(none)"
	for _, line := range strings.Split(answer.SDP, "\r\n") {
		if strings.HasPrefix(line, "a=setup:") {
			got = strings.TrimPrefix(line, "a=setup:")
			break
		}
	}
	want := specAnswerSetup(DTLSRole(cfg), DTLSRole(offerRole), remoteLite != 0, localLite)
	detail := fmt.Sprintf("configured role=%s offer a=setup:%s remote ice-lite=%v local ice-lite=%v: answer a=setup:%s, RFC 5763 requires %s",
		DTLSRole(cfg), setup, remoteLite != 0, localLite, got, want.String())
	return got != want.String() || (got != sdp.ConnectionRoleActive.String() && got != sdp.ConnectionRolePassive.String()), detail
}
