//go:build verif

package rtpdump

import (
	"bytes"
	"fmt"
	"testing"
	"time"
)

func init() {
	replayDrivers["(Packet).Marshal"] = replayPacketMarshal
	replayDrivers["specRoundTripPacket"] = replayPacketMarshal
	replayDrivers["(*Packet).Unmarshal"] = replayPacketUnmarshal
	replayDrivers["(*Reader).Next"] = replayReaderNext
}

// replayPacketMarshal: build the packet of the model (payload bytes are
// irrelevant to the failed clauses and are left zero), run the real encoder and
// check the refusal and round-trip clauses with the spec functions as oracle.
func replayPacketMarshal(t *testing.T, r *replayFile) (bool, string) {
	n, ok1 := r.num("len(p.Payload).0")
	off, ok2 := r.num("p.Offset.0")
	if !ok1 || !ok2 {
		return false, "model lacks payload length / offset"
	}
	if n < 0 || n > 1<<24 {
		return false, fmt.Sprintf("payload length %d outside what the replay allocates", n)
	}
	p := Packet{Offset: time.Duration(off), IsRTCP: r.Model["p.1"] == "true", Payload: make([]byte, n)}
	for i := range p.Payload {
		p.Payload[i] = byte(i*7 + 1)
	}
	data, err := p.Marshal()
	detail := fmt.Sprintf("Packet{Offset:%d, IsRTCP:%v, len(Payload):%d}.Marshal() -> len %d, err %v", off, p.IsRTCP, n, len(data), err)
	if err == nil && !specEncodable(p) {
		return true, detail + " [accepted a packet the format cannot hold]"
	}
	if err != nil && specEncodable(p) {
		return true, detail + " [refused an encodable packet]"
	}
	if err == nil && specRepresentable(p) {
		var q Packet
		if uerr := q.Unmarshal(data); uerr != nil || q.Offset != p.Offset || q.IsRTCP != p.IsRTCP || !bytes.Equal(q.Payload, p.Payload) {
			return true, detail + fmt.Sprintf(" [round trip differs: err=%v]", uerr)
		}
	}
	return false, detail
}

func replayPacketUnmarshal(t *testing.T, r *replayFile) (bool, string) {
	return false, "no concrete bytes in the model"
}

// replayReaderNext feeds the reader a record whose length field is the model's.
func replayReaderNext(t *testing.T, r *replayFile) (bool, string) {
	l, ok := r.num("recordLength")
	if !ok {
		return false, "model lacks recordLength"
	}
	stream := make([]byte, 8+70000)
	stream[0], stream[1] = byte(l>>8), byte(l)
	rd := &Reader{reader: bytes.NewReader(stream)}
	pkt, err := rd.Next()
	detail := fmt.Sprintf("record length field %d: Next() -> payload %d bytes, err %v", l, len(pkt.Payload), err)
	if l < 8 && err == nil {
		return true, detail + " [record shorter than its own header accepted]"
	}
	return false, detail
}
