//go:build verif

package mux

import (
	"bytes"
	"fmt"
	"testing"

	"github.com/pion/logging"
)

func init() {
	replayDrivers["(*Mux).dispatch"] = replayDispatch
	for _, u := range []string{"MatchRange", "MatchDTLS", "MatchSRTPOrSRTCP", "isRTCP", "MatchSRTP", "MatchSRTCP"} {
		replayDrivers[u] = replayMatch
	}
}

// replayDispatch: a datagram with no endpoint is queued; the caller then reuses
// its buffer (as readLoop does). The queued datagram must still hold the original bytes.
func replayDispatch(t *testing.T, r *replayFile) (bool, string) {
	n, ok := r.num("buf.2")
	if !ok || n <= 0 || n > 1<<20 {
		n = 16
	}
	m := &Mux{endpoints: map[*Endpoint]MatchFunc{}, log: logging.NewDefaultLoggerFactory().NewLogger("mux")}
	buf := make([]byte, n)
	for i := range buf {
		buf[i] = byte(20 + i%40)
	}
	orig := append([]byte{}, buf...)
	if err := m.dispatch(buf); err != nil {
		return false, err.Error()
	}
	for i := range buf {
		buf[i] = 0xff
	}
	if len(m.pendingPackets) != 1 {
		return false, fmt.Sprintf("queued %d datagrams", len(m.pendingPackets))
	}
	got := m.pendingPackets[0]
	detail := fmt.Sprintf("datagram of %d bytes queued, caller overwrote its buffer: queued copy equals original: %v", n, bytes.Equal(got, orig))
	return !bytes.Equal(got, orig), detail
}

// replayMatch runs all match functions on a buffer built from the model's length
// and first bytes and compares with the RFC 7983 specification.
func replayMatch(t *testing.T, r *replayFile) (bool, string) {
	var n int64 = -1
	for _, k := range []string{"buf.2", "b.2"} {
		if v, ok := r.num(k); ok {
			n = v
		}
	}
	if n < 0 || n > 1<<16 {
		return false, "model lacks buffer length"
	}
	for b0 := 0; b0 < 256; b0++ {
		for b1 := 0; b1 < 256; b1++ {
			buf := make([]byte, n)
			if n > 0 {
				buf[0] = byte(b0)
			}
			if n > 1 {
				buf[1] = byte(b1)
			}
			var x0, x1 byte
			if n > 0 {
				x0 = buf[0]
			}
			if n > 1 {
				x1 = buf[1]
			}
			if MatchDTLS(buf) != specDTLS(int(n), x0) || MatchSRTP(buf) != specSRTP(int(n), x0, x1) || MatchSRTCP(buf) != specSRTCP(int(n), x0, x1) ||
				MatchSRTPOrSRTCP(buf) != specMedia(int(n), x0) || (n >= 2 && isRTCP(buf) != specRTCPType(int(n), x1)) {
				return true, fmt.Sprintf("len=%d b0=%d b1=%d: dtls=%v srtp=%v srtcp=%v, RFC 7983 says dtls=%v srtp=%v srtcp=%v", n, b0, b1,
					MatchDTLS(buf), MatchSRTP(buf), MatchSRTCP(buf), specDTLS(int(n), x0), specSRTP(int(n), x0, x1), specSRTCP(int(n), x0, x1))
			}
			if n < 2 {
				break
			}
		}
		if n < 1 {
			break
		}
	}
	return false, fmt.Sprintf("all first/second byte values agree with RFC 7983 at length %d", n)
}
