//go:build verif

package h264writer

import (
	"bytes"
	"fmt"
	"io"
	"testing"

	"github.com/pion/rtp"
	"github.com/pion/rtp/codecs"
	"github.com/pion/webrtc/v4/pkg/media/h264reader"
)

func init() {
	replayDrivers["isKeyFrame"] = replayIsKeyFrame
}

// payloadFromModel rebuilds the payload bytes the obligation looked at (the observed
// header bytes b0..b3 and the length, clamped: only thresholds up to 4 matter).
func payloadFromModel(r *replayFile) []byte {
	n, _ := r.num("len(data).0")
	if n < 0 {
		n = 0
	}
	if n > 64 {
		n = 64
	}
	d := make([]byte, n)
	for i := range d {
		d[i] = 0x90
	}
	for i, k := range []string{"b0", "b1", "b2", "b3"} {
		if v, ok := r.num(k); ok && i < len(d) {
			d[i] = byte(v)
		}
	}
	return d
}

// replayIsKeyFrame runs the real predicate on the model's payload and compares it with
// the property's definition; for a reproduced miss it also shows the end-to-end effect
// (payloader -> writer -> reader) on a stream whose first keyframe has that shape.
func replayIsKeyFrame(t *testing.T, r *replayFile) (bool, string) {
	d := payloadFromModel(r)
	got := isKeyFrame(d)
	must, may := specKeyFrame264(d), specKeyAny264(d)
	if (must && !got) || (got && !may) {
		return true, fmt.Sprintf("isKeyFrame(% x) = %v, property says must=%v may=%v; %s", d, got, must, may, endToEnd264())
	}
	return false, fmt.Sprintf("isKeyFrame(% x) = %v agrees with the definition (must=%v may=%v)", d, got, must, may)
}

// endToEnd264: a stream P, IDR(large, fragmented), P delivered from its start.
func endToEnd264() string {
	idr := append([]byte{0x65}, bytes.Repeat([]byte{0xAB}, 3000)...)
	nals := [][]byte{{0x41, 1, 2, 3}, idr, {0x41, 4, 5, 6}}
	var annexb []byte
	for _, n := range nals {
		annexb = append(append(annexb, 0, 0, 0, 1), n...)
	}
	p := &codecs.H264Payloader{}
	out := &bytes.Buffer{}
	w := NewWith(out)
	for _, pl := range p.Payload(1200, annexb) {
		if err := w.WriteRTP(&rtp.Packet{Payload: pl}); err != nil {
			return "end-to-end: write error " + err.Error()
		}
	}
	rd, err := h264reader.NewReader(bytes.NewReader(out.Bytes()))
	if err != nil {
		return "end-to-end: " + err.Error()
	}
	var types []int
	for {
		nal, err := rd.NextNAL()
		if err == io.EOF || err != nil {
			break
		}
		types = append(types, int(nal.UnitType))
	}
	return fmt.Sprintf("end-to-end [P, IDR(3001 bytes, FU-A), P] at MTU 1200 reads back unit types %v (want [5 1])", types)
}
