package main

import (
	"time"
	"encoding/json"
	"flag"
	"fmt"
	"os"
	"os/exec"
	"path/filepath"
	"sort"
	"strings"

	"govc/core"
)

func main() {
	if len(os.Args) < 2 {
		fmt.Fprintln(os.Stderr, "usage: govc unit|check ...")
		os.Exit(2)
	}
	defer core.CleanupTmp()
	switch os.Args[1] {
	case "unit":
		unitCmd(os.Args[2:])
	case "check":
		os.Exit(checkCmd(os.Args[2:]))
	case "ssa":
		ssaCmd(os.Args[2:])
	case "funcs":
		funcsCmd(os.Args[2:])
	case "replay":
		os.Exit(replayCmd(os.Args[2:]))
	default:
		fmt.Fprintln(os.Stderr, "unknown command", os.Args[1])
		os.Exit(2)
	}
}

func ssaCmd(args []string) {
	fs := flag.NewFlagSet("ssa", flag.ExitOnError)
	repo := fs.String("repo", "/repo", "repository root")
	pkg := fs.String("pkg", ".", "package directory relative to the repo")
	fs.Parse(args)
	e, err := core.Load(*repo, *pkg)
	if err != nil {
		fmt.Fprintln(os.Stderr, err)
		os.Exit(2)
	}
	for _, k := range fs.Args() {
		fn := e.Func(k)
		if fn == nil {
			fmt.Println("no function", k)
			continue
		}
		fn.WriteTo(os.Stdout)
	}
}

// unitCmd: development helper, verifies the named units and prints every obligation.
func unitCmd(args []string) {
	fs := flag.NewFlagSet("unit", flag.ExitOnError)
	repo := fs.String("repo", "/repo", "repository root")
	pkg := fs.String("pkg", ".", "package directory relative to the repo")
	timeout := fs.Int("timeout", 10000, "per-obligation timeout (ms)")
	dump := fs.String("dump", "", "write the SMT query of the named obligation to stdout")
	verbose := fs.Bool("v", false, "print discharged obligations too")
	eval := fs.String("eval", "", "semicolon-separated contract expressions to evaluate in counterexamples (post-state)")
	fs.Parse(args)
	e, err := core.Load(*repo, *pkg)
	if err != nil {
		fmt.Fprintln(os.Stderr, err)
		os.Exit(2)
	}
	if *eval != "" {
		e.ExtraEval = strings.Split(*eval, ";")
	}
	if kf, err := core.LoadKnownFindings(filepath.Join(verifRoot(), "known_findings.json")); err == nil {
		e.Known = kf
		e.CurPkg = *pkg
	}
	keys := fs.Args()
	if len(keys) == 0 {
		for _, c := range e.ContractList {
			keys = append(keys, c.Key)
		}
	}
	bad := 0
	for _, k := range keys {
		if ct := e.Contracts[k]; ct != nil && len(ct.Props) > 0 {
			e.CurProp = ct.Props[0]
		}
		res := e.VerifyUnit(k, *timeout, 8, false, *dump)
		fmt.Printf("== %s: %d obligations, gen %dms solve %dms\n", res.Unit, len(res.Obls), res.GenMs, res.SolveMs)
		if res.Error != "" {
			fmt.Printf("   ERROR: %s\n", res.Error)
			bad++
		}
		dead := 0
		if res.Contract != nil {
			dead = res.Contract.DeadReturnCount
		}
		for _, o := range res.Obls {
			if o.ReturnCover && o.Status == "unsat" && dead > 0 {
				dead--
				continue
			}
			ok := (o.Status == "unsat") != o.Vacuity
			if o.Vacuity && o.Status != "unsat" {
				ok = true
			}
			if !ok {
				bad++
			}
			if !ok || *verbose {
				fmt.Printf("   %-7s %-60s %s [%s %dms] %s\n", o.Status, o.Name, o.Pos, o.Solver, o.Ms, o.Clause)
				if !ok && !o.Vacuity {
					var ks []string
					for k := range o.Model {
						ks = append(ks, k)
					}
					sort.Strings(ks)
					for _, in := range res.Inputs {
						if v, has := o.Model[in.Term.S]; has {
							fmt.Printf("           %s = %s\n", in.Name, v)
						}
					}
					if o.Status != "sat" {
						fmt.Printf("           %s\n", o.Output)
					}
				}
			}
		}
		var ab []string
		for k, n := range res.Abstracted {
			ab = append(ab, fmt.Sprintf("%s x%d", k, n))
		}
		sort.Strings(ab)
		for _, a := range ab {
			fmt.Printf("   abstracted: %s\n", a)
		}
	}
	if bad > 0 {
		core.CleanupTmp()
		os.Exit(1)
	}
}

// funcsCmd: govc funcs [--repo dir] <pkgdir>... prints {"<pkgdir>": [function keys]} (the baseline file).
func funcsCmd(args []string) {
	fs := flag.NewFlagSet("funcs", flag.ExitOnError)
	repo := fs.String("repo", "/repo", "repository root")
	fs.Parse(args)
	out := map[string][]string{}
	for _, rel := range fs.Args() {
		e, err := core.Load(*repo, rel)
		if err != nil {
			fmt.Fprintln(os.Stderr, "govc:", err)
			os.Exit(2)
		}
		out[filepath.Clean(rel)] = e.FuncKeys()
	}
	data, _ := json.MarshalIndent(out, "", " ")
	fmt.Println(string(data))
}

func verifRoot() string {
	if d := os.Getenv("VERIF_ROOT"); d != "" {
		return d
	}
	return "/verif"
}

func loadProps() (map[string]*core.PropertyConfig, error) {
	data, err := os.ReadFile(filepath.Join(verifRoot(), "props.json"))
	if err != nil {
		return nil, err
	}
	var list []*core.PropertyConfig
	if err := json.Unmarshal(data, &list); err != nil {
		return nil, err
	}
	m := map[string]*core.PropertyConfig{}
	for _, p := range list {
		m[p.ID] = p
	}
	return m, nil
}

// checkCmd: govc check <Cxx> [--tier quick|thorough]
func checkCmd(args []string) int {
	fs := flag.NewFlagSet("check", flag.ExitOnError)
	repo := fs.String("repo", "/repo", "repository root")
	tier := fs.String("tier", os.Getenv("VERIF_TIER"), "quick or thorough")
	noReplay := fs.Bool("no-replay", false, "do not run replay drivers")
	evdir := fs.String("evidence", filepath.Join(verifRoot(), "evidence"), "evidence directory")
	if len(args) == 0 {
		fmt.Fprintln(os.Stderr, "usage: govc check <property> [flags]")
		return 2
	}
	id := args[0]
	fs.Parse(args[1:])
	if *tier == "" {
		*tier = "quick"
	}
	var seed int64
	fmt.Sscan(os.Getenv("VERIF_SEED"), &seed)
	props, err := loadProps()
	if err != nil {
		fmt.Fprintln(os.Stderr, "props.json:", err)
		return 2
	}
	cfg := props[id]
	if cfg == nil {
		fmt.Fprintln(os.Stderr, "unknown property", id)
		return 2
	}
	kf, err := core.LoadKnownFindings(filepath.Join(verifRoot(), "known_findings.json"))
	if err != nil {
		fmt.Fprintln(os.Stderr, "known_findings.json:", err)
		return 2
	}
	timeout, cross := 10000, false
	if *tier == "thorough" {
		timeout, cross = 60000, true
	}
	cr, err := core.RunProperty(*repo, cfg, kf, timeout, 8, cross)
	if err != nil {
		// the tree does not load (does not compile with the tag): nothing can be decided
		fmt.Fprintln(os.Stderr, "govc:", err)
		fmt.Printf("VIOLATION property=%s replay=%s no-failing-input-found\n", id, writeLoadFailure(id, err))
		return 1
	}
	// vacuity: the expected number of units / obligations must be present
	if len(cr.Units) < cfg.MinUnits || cr.Obligations < cfg.MinObls {
		cr.Violations = append(cr.Violations, &core.Violation{Property: id, Unit: "(check)", Obligation: id + "#vacuity", Kind: "vacuity",
			Clause: fmt.Sprintf("at least %d units and %d obligations are generated (got %d, %d)", cfg.MinUnits, cfg.MinObls, len(cr.Units), cr.Obligations), Status: "error"})
		cr.Obligations++
	}
	for _, k := range cr.KnownHit {
		fmt.Printf("KNOWN-FINDING: %s\n", k)
	}
	exit := 0
	replays := 0
	replayDir := filepath.Join(verifRoot(), "replays")
	for _, v := range cr.Violations {
		path, err := v.WriteReplay(replayDir)
		if err != nil {
			fmt.Fprintln(os.Stderr, err)
		}
		v.Replayed = "no-driver"
		if !*noReplay && replays < 10 {
			// the driver decides what it can do with the model (some search an input class
			// named by the obligation instead); the number of replays per run is capped
			replays++
			runReplay(*repo, v)
			v.WriteReplay(replayDir)
		}
		suffix := ""
		if v.Replayed != "reproduced" {
			suffix = " no-failing-input-found"
		}
		fmt.Printf("FAILED-OBLIGATION %s (%s) %s: %s\n", v.Obligation, v.Status, v.Pos, truncate(v.Clause, 160))
		fmt.Printf("VIOLATION property=%s replay=%s%s\n", id, path, suffix)
		exit = 1
	}
	// bounded stand-ins (labelled bounded, never counted among the discharged obligations)
	var bounded []*core.BoundedResult
	for _, b := range cfg.Bounded {
		br, v := runBounded(*repo, id, *tier, b)
		bounded = append(bounded, br)
		if v != nil {
			path, _ := v.WriteReplay(replayDir)
			cr.Violations = append(cr.Violations, v)
			suffix := ""
			if v.Replayed != "reproduced" {
				suffix = " no-failing-input-found"
			}
			fmt.Printf("FAILED-BOUNDED-CHECK %s: %s\n", v.Obligation, truncate(v.Clause, 200))
			fmt.Printf("VIOLATION property=%s replay=%s%s\n", id, path, suffix)
			exit = 1
		} else {
			fmt.Printf("bounded stand-in %s (%s): %s\n", b.Function, b.Run, br.Summary)
		}
	}
	level := cfg.Level
	if level == "" {
		level = "proof"
	}
	if cr.Obligations == 0 || cr.Discharged == 0 {
		level = "other"
	}
	cmd := fmt.Sprintf("/verif/bin/check %s (govc check %s --tier %s)", id, id, *tier)
	extra := map[string]any{"replay_outcomes": replayOutcomes(cr)}
	if len(bounded) > 0 {
		extra["bounded_stand_ins"] = bounded
	}
	if err := cr.WriteEvidence(*evdir, cfg, *tier, seed, cmd, level, extra); err != nil {
		fmt.Fprintln(os.Stderr, "evidence:", err)
		return 2
	}
	fmt.Printf("%s: %d units, %d obligations, %d discharged, %d known findings, %d violations, %.1fs\n", id, len(cr.Units), cr.Obligations, cr.Discharged, len(cr.KnownHit), len(cr.Violations), cr.WallS)
	return exit
}

func truncate(s string, n int) string {
	if len(s) > n {
		return s[:n] + "..."
	}
	return s
}

func replayOutcomes(cr *core.CheckResult) []string {
	var out []string
	for _, v := range cr.Violations {
		out = append(out, v.Obligation+": "+v.Replayed)
	}
	return out
}

func writeLoadFailure(id string, err error) string {
	dir := filepath.Join(verifRoot(), "replays")
	os.MkdirAll(dir, 0o755)
	path := filepath.Join(dir, id+"-load-failure.json")
	data, _ := json.MarshalIndent(map[string]string{"property": id, "obligation": id + "#load", "error": err.Error()}, "", " ")
	os.WriteFile(path, data, 0o644)
	return path
}

// overlayFor builds a go test overlay that injects the driver files of pkg's replay directory.
func overlayFor(repo, pkg, tmp string) (ovPath, drvDir string, ok bool) {
	drvDir = filepath.Join(verifRoot(), "replay", strings.ReplaceAll(strings.Trim(pkg, "./"), "/", "_"))
	if pkg == "." || pkg == "" {
		drvDir = filepath.Join(verifRoot(), "replay", "root")
	}
	files, _ := filepath.Glob(filepath.Join(drvDir, "*_test.go"))
	if len(files) == 0 {
		return "", drvDir, false
	}
	ov := map[string]map[string]string{"Replace": {}}
	for _, f := range files {
		ov["Replace"][filepath.Join(repo, pkg, "zz_verif_"+filepath.Base(f))] = f
	}
	data, _ := json.Marshal(ov)
	ovPath = filepath.Join(tmp, "overlay.json")
	os.WriteFile(ovPath, data, 0o644)
	return ovPath, drvDir, true
}

// runBounded runs one bounded stand-in: the named test of the package's driver directory is
// injected with -overlay and run against the real code of the current tree.
func runBounded(repo, id, tier string, b core.BoundedSpec) (*core.BoundedResult, *core.Violation) {
	br := &core.BoundedResult{Function: b.Function, Test: b.Run, Bound: b.Bound, Why: b.Why, Status: "did-not-run"}
	tmp, err := os.MkdirTemp("", "govc-bounded-")
	if err != nil {
		br.Summary = err.Error()
		return br, &core.Violation{Property: id, Unit: b.Function, Obligation: b.Function + "#bounded", Kind: "bounded", Clause: "the bounded stand-in runs", Status: "error", Output: err.Error(), Pkg: b.Pkg, Replayed: "no-driver"}
	}
	defer os.RemoveAll(tmp)
	ovPath, drvDir, ok := overlayFor(repo, b.Pkg, tmp)
	if !ok {
		br.Summary = "no driver files in " + drvDir
		return br, &core.Violation{Property: id, Unit: b.Function, Obligation: b.Function + "#bounded", Kind: "bounded", Clause: "the bounded stand-in runs", Status: "error", Output: br.Summary, Pkg: b.Pkg, Replayed: "no-driver"}
	}
	n := b.LenQuick
	if tier == "thorough" && b.LenThor > 0 {
		n = b.LenThor
	}
	cmd := exec.Command("go", "test", "-overlay", ovPath, "-tags", "verif", "-vet=off", "-count=1", "-v", "-timeout", "1200s", "-run", "^"+b.Run+"$", ".")
	cmd.Dir = filepath.Join(repo, b.Pkg)
	cmd.Env = append(os.Environ(), "GOFLAGS=-mod=mod", "GOPROXY=off")
	if n > 0 {
		cmd.Env = append(cmd.Env, fmt.Sprintf("VERIF_BOUNDED_LEN=%d", n))
	}
	start := time.Now()
	out, _ := cmd.CombinedOutput()
	br.WallS = time.Since(start).Seconds()
	br.Cmd = fmt.Sprintf("cd %s && VERIF_BOUNDED_LEN=%d go test -overlay <overlay of %s> -tags verif -vet=off -count=1 -run '^%s$' .", cmd.Dir, n, drvDir, b.Run)
	line := ""
	for _, l := range strings.Split(string(out), "\n") {
		if strings.HasPrefix(l, "BOUNDED: ") {
			line = l
		}
	}
	switch {
	case strings.HasPrefix(line, "BOUNDED: ok"):
		br.Status = "ok"
		br.Summary = strings.TrimPrefix(line, "BOUNDED: ")
		return br, nil
	case strings.HasPrefix(line, "BOUNDED: violation"):
		br.Status = "violation"
		br.Summary = strings.TrimPrefix(line, "BOUNDED: ")
		return br, &core.Violation{Property: id, Unit: b.Function, Obligation: b.Function + "#bounded", Kind: "bounded", Pkg: b.Pkg,
			Clause: "bounded stand-in (" + b.Bound + "): " + br.Summary, Status: "counterexample", Output: truncate(string(out), 3000),
			ReplayCmd: br.Cmd, Replayed: "reproduced", ReplayLog: truncate(string(out), 3000)}
	default:
		br.Summary = "the test produced no BOUNDED line (build failure or crash outside the guarded call)"
		return br, &core.Violation{Property: id, Unit: b.Function, Obligation: b.Function + "#bounded", Kind: "bounded", Pkg: b.Pkg,
			Clause: "the bounded stand-in runs to completion", Status: "error", Output: truncate(string(out), 3000), ReplayCmd: br.Cmd, Replayed: "no-driver"}
	}
}

// runReplay injects the property's replay driver into the package with -overlay
// and runs it on the counterexample.
func runReplay(repo string, v *core.Violation) {
	drvDir := filepath.Join(verifRoot(), "replay", strings.ReplaceAll(strings.Trim(v.Pkg, "./"), "/", "_"))
	if v.Pkg == "." || v.Pkg == "" {
		drvDir = filepath.Join(verifRoot(), "replay", "root")
	}
	files, _ := filepath.Glob(filepath.Join(drvDir, "*_test.go"))
	if len(files) == 0 {
		return
	}
	tmp, err := os.MkdirTemp("", "govc-replay-")
	if err != nil {
		return
	}
	defer os.RemoveAll(tmp)
	ov := map[string]map[string]string{"Replace": {}}
	for _, f := range files {
		ov["Replace"][filepath.Join(repo, v.Pkg, "zz_verif_"+filepath.Base(f))] = f
	}
	data, _ := json.Marshal(ov)
	ovPath := filepath.Join(tmp, "overlay.json")
	os.WriteFile(ovPath, data, 0o644)
	cmd := exec.Command("go", "test", "-overlay", ovPath, "-tags", "verif", "-vet=off", "-count=1", "-v", "-timeout", "120s", "-run", "^TestVerifReplay$", ".")
	cmd.Dir = filepath.Join(repo, v.Pkg)
	cmd.Env = append(os.Environ(), "GOFLAGS=-mod=mod", "GOPROXY=off", "VERIF_REPLAY_FILE="+v.File)
	out, _ := cmd.CombinedOutput()
	v.ReplayCmd = fmt.Sprintf("cd %s && VERIF_REPLAY_FILE=%s go test -overlay <overlay of %s> -tags verif -vet=off -count=1 -timeout 120s -run '^TestVerifReplay$' .", cmd.Dir, v.File, drvDir)
	v.ReplayLog = truncate(string(out), 3000)
	switch {
	case strings.Contains(string(out), "REPLAY: reproduced"):
		v.Replayed = "reproduced"
	case strings.Contains(string(out), "REPLAY: not-reproduced"):
		v.Replayed = "not-reproduced"
	default:
		v.Replayed = "no-driver"
	}
}

// replayCmd: govc replay <file> — re-runs the replay driver on a stored counterexample.
func replayCmd(args []string) int {
	fs := flag.NewFlagSet("replay", flag.ExitOnError)
	repo := fs.String("repo", "/repo", "repository root")
	fs.Parse(args)
	if fs.NArg() != 1 {
		fmt.Fprintln(os.Stderr, "usage: govc replay [--repo dir] <replay file>")
		return 2
	}
	abs, _ := filepath.Abs(fs.Arg(0))
	data, err := os.ReadFile(abs)
	if err != nil {
		fmt.Fprintln(os.Stderr, err)
		return 2
	}
	var v core.Violation
	if err := json.Unmarshal(data, &v); err != nil {
		fmt.Fprintln(os.Stderr, err)
		return 2
	}
	v.File = fs.Arg(0)
	v.Replayed = "no-driver"
	runReplay(*repo, &v)
	fmt.Println(v.ReplayLog)
	fmt.Printf("obligation %s: %s\n", v.Obligation, v.Replayed)
	if v.Replayed == "reproduced" {
		return 1
	}
	return 0
}
