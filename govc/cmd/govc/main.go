package main

import (
	"fmt"
	"golang.org/x/tools/go/packages"
	"golang.org/x/tools/go/ssa"
	"golang.org/x/tools/go/ssa/ssautil"
	"os"
)

func main() {
	cfg := &packages.Config{Mode: packages.LoadAllSyntax &^ 0, Dir: "/repo", BuildFlags: []string{"-tags=verif"}}
	cfg.Mode = packages.NeedName | packages.NeedFiles | packages.NeedSyntax | packages.NeedTypes | packages.NeedTypesInfo | packages.NeedImports | packages.NeedDeps | packages.NeedTypesSizes
	pkgs, err := packages.Load(cfg, os.Args[1])
	if err != nil {
		panic(err)
	}
	prog, spkgs := ssautil.Packages(pkgs, ssa.NaiveForm|ssa.GlobalDebug|ssa.InstantiateGenerics)
	_ = prog
	spkgs[0].Build()
	fn := spkgs[0].Func(os.Args[2])
	if fn != nil {
		fn.WriteTo(os.Stdout)
	}
	fmt.Println(len(pkgs))
}
