package main

import (
	"flag"
	"fmt"
	"os"
	"sort"

	"govc/core"
)

func main() {
	if len(os.Args) < 2 {
		fmt.Fprintln(os.Stderr, "usage: govc unit|check ...")
		os.Exit(2)
	}
	defer core.CleanupTmp()
	switch os.Args[1] {
	case "unit":
		unitCmd(os.Args[2:])
	case "check":
		os.Exit(checkCmd(os.Args[2:]))
	case "ssa":
		ssaCmd(os.Args[2:])
	default:
		fmt.Fprintln(os.Stderr, "unknown command", os.Args[1])
		os.Exit(2)
	}
}

func ssaCmd(args []string) {
	fs := flag.NewFlagSet("ssa", flag.ExitOnError)
	repo := fs.String("repo", "/repo", "repository root")
	pkg := fs.String("pkg", ".", "package directory relative to the repo")
	fs.Parse(args)
	e, err := core.Load(*repo, *pkg)
	if err != nil {
		fmt.Fprintln(os.Stderr, err)
		os.Exit(2)
	}
	for _, k := range fs.Args() {
		fn := e.Func(k)
		if fn == nil {
			fmt.Println("no function", k)
			continue
		}
		fn.WriteTo(os.Stdout)
	}
}

// unitCmd: development helper, verifies the named units and prints every obligation.
func unitCmd(args []string) {
	fs := flag.NewFlagSet("unit", flag.ExitOnError)
	repo := fs.String("repo", "/repo", "repository root")
	pkg := fs.String("pkg", ".", "package directory relative to the repo")
	timeout := fs.Int("timeout", 10000, "per-obligation timeout (ms)")
	dump := fs.String("dump", "", "write the SMT query of the named obligation to stdout")
	verbose := fs.Bool("v", false, "print discharged obligations too")
	fs.Parse(args)
	e, err := core.Load(*repo, *pkg)
	if err != nil {
		fmt.Fprintln(os.Stderr, err)
		os.Exit(2)
	}
	keys := fs.Args()
	if len(keys) == 0 {
		for _, c := range e.ContractList {
			keys = append(keys, c.Key)
		}
	}
	bad := 0
	for _, k := range keys {
		res := e.VerifyUnit(k, *timeout, 8, false, *dump)
		fmt.Printf("== %s: %d obligations, gen %dms solve %dms\n", res.Unit, len(res.Obls), res.GenMs, res.SolveMs)
		if res.Error != "" {
			fmt.Printf("   ERROR: %s\n", res.Error)
			bad++
		}
		for _, o := range res.Obls {
			ok := (o.Status == "unsat") != o.Vacuity
			if o.Vacuity && o.Status == "sat" {
				ok = true
			}
			if !ok {
				bad++
			}
			if !ok || *verbose {
				fmt.Printf("   %-7s %-60s %s [%s %dms] %s\n", o.Status, o.Name, o.Pos, o.Solver, o.Ms, o.Clause)
				if !ok && !o.Vacuity {
					var ks []string
					for k := range o.Model {
						ks = append(ks, k)
					}
					sort.Strings(ks)
					for _, in := range o.Inputs {
						if v, has := o.Model[in.Term.S]; has {
							fmt.Printf("           %s = %s\n", in.Name, v)
						}
					}
					if o.Status != "sat" {
						fmt.Printf("           %s\n", o.Output)
					}
				}
			}
		}
		var ab []string
		for k, n := range res.Abstracted {
			ab = append(ab, fmt.Sprintf("%s x%d", k, n))
		}
		sort.Strings(ab)
		for _, a := range ab {
			fmt.Printf("   abstracted: %s\n", a)
		}
	}
	if bad > 0 {
		core.CleanupTmp()
		os.Exit(1)
	}
}

func checkCmd(args []string) int {
	fmt.Fprintln(os.Stderr, "check: not implemented yet")
	return 2
}
