package core

import (
	"fmt"
	"go/types"
	"sort"

	"golang.org/x/tools/go/ssa"
)

type deferred struct {
	call  *ssa.Defer
	args  []Value // evaluated at the defer statement
	fnv   Value
	guard Term // the defer statement was executed on this path (true when unconditional)
}

// State is the symbolic machine state at a program point.
type State struct {
	Reach        Term
	Cells        map[*ssa.Alloc]Value
	Heaps        map[Sort]Term   // leaf sort -> heap array
	MapDom       map[Sort]Term   // key sort -> (Array Int (Array K Bool))
	MapVal       map[string]Term // "K|V|leaf" -> (Array Int (Array K V))
	Frontier     Term            // Int: every ref in use is < Frontier
	IterFrontier Term            // the frontier at the last loop head crossed (entry frontier outside loops)
	Defers       []deferred
	Ghost        map[string]Term
	Base         string // generation of lazily created map/ghost symbols (changes at a full havoc)
	HeadSt       *State // the state at the last loop head crossed (nil outside loops): loophead(e)
	Iter         map[*ssa.Range]Term // map iterators: the set of keys already produced (Array K Bool)
}

func (s *State) Clone() *State {
	n := &State{Reach: s.Reach, Frontier: s.Frontier, IterFrontier: s.IterFrontier, Base: s.Base, HeadSt: s.HeadSt,
		Cells: make(map[*ssa.Alloc]Value, len(s.Cells)), Heaps: make(map[Sort]Term, len(s.Heaps)),
		MapDom: make(map[Sort]Term, len(s.MapDom)), MapVal: make(map[string]Term, len(s.MapVal)),
		Ghost: make(map[string]Term, len(s.Ghost))}
	for k, v := range s.Cells {
		n.Cells[k] = v
	}
	for k, v := range s.Heaps {
		n.Heaps[k] = v
	}
	for k, v := range s.MapDom {
		n.MapDom[k] = v
	}
	for k, v := range s.MapVal {
		n.MapVal[k] = v
	}
	for k, v := range s.Ghost {
		n.Ghost[k] = v
	}
	n.Defers = append([]deferred(nil), s.Defers...)
	if len(s.Iter) > 0 {
		n.Iter = make(map[*ssa.Range]Term, len(s.Iter))
		for k, v := range s.Iter {
			n.Iter[k] = v
		}
	}
	return n
}

func mapDomSort(k Sort) Sort { return Sort("(Array Int (Array " + string(k) + " Bool))") }
func mapValSort(k, v Sort) Sort {
	return Sort("(Array Int (Array " + string(k) + " " + string(v) + "))")
}

// AllLeafSorts is the fixed universe of scalar heaps.
var AllLeafSorts = []Sort{SBool, SBV8, SBV16, SBV32, SBV64, SStr, SInt}

// heap returns the current heap array for a leaf sort.
func (x *Exec) heap(s *State, leaf Sort) Term {
	if h, ok := s.Heaps[leaf]; ok {
		return h
	}
	panic("no heap for sort " + string(leaf))
}

// baseSym is the lazily declared symbol of generation base for a map heap or ghost.
func (x *Exec) baseSym(base, key string, srt Sort) Term {
	k := base + "|" + key
	if t, ok := x.baseSyms[k]; ok {
		return t
	}
	t := x.C.Declare(sanitize("B"+base+"_"+key), srt)
	x.baseSyms[k] = t
	return t
}

func (x *Exec) mapDom(s *State, k Sort) Term {
	if h, ok := s.MapDom[k]; ok {
		return h
	}
	h := x.baseSym(s.Base, "MD_"+string(k), mapDomSort(k))
	s.MapDom[k] = h
	return h
}

func mapValKey(k, v Sort, leaf int) string { return fmt.Sprintf("%s|%s|%d", k, v, leaf) }

func (x *Exec) mapVal(s *State, k, v Sort, leaf int) Term {
	key := mapValKey(k, v, leaf)
	if h, ok := s.MapVal[key]; ok {
		return h
	}
	h := x.baseSym(s.Base, "MV_"+key, mapValSort(k, v))
	x.mapValSorts[key] = h.Sort
	s.MapVal[key] = h
	return h
}

type edge struct {
	st   *State
	cond Term // reach of the edge (already includes st.Reach)
	from *ssa.BasicBlock
}

func sameTerms(ts []Term) bool {
	for _, t := range ts[1:] {
		if t.S != ts[0].S {
			return false
		}
	}
	return true
}

// mergeTerm joins one leaf over the edges.
func (x *Exec) mergeTerm(name string, edges []edge, get func(*State) Term) Term {
	ts := make([]Term, len(edges))
	conds := make([]Term, len(edges))
	for i, e := range edges {
		ts[i] = get(e.st)
		conds[i] = e.cond
	}
	return x.join(name, conds, ts)
}

func (x *Exec) merge(edges []edge) *State {
	if len(edges) == 1 {
		s := edges[0].st.Clone()
		s.Reach = edges[0].cond
		return s
	}
	conds := make([]Term, len(edges))
	for i, e := range edges {
		conds[i] = e.cond
	}
	n := &State{Cells: map[*ssa.Alloc]Value{}, Heaps: map[Sort]Term{}, MapDom: map[Sort]Term{},
		MapVal: map[string]Term{}, Ghost: map[string]Term{}}
	n.Reach = x.C.Define("reach", Or(conds...))
	// cells: only those present in all edges survive
	var allocs []*ssa.Alloc
	for a := range edges[0].st.Cells {
		ok := true
		for _, e := range edges[1:] {
			if _, has := e.st.Cells[a]; !has {
				ok = false
				break
			}
		}
		if ok {
			allocs = append(allocs, a)
		}
	}
	sort.Slice(allocs, func(i, j int) bool {
		return allocs[i].Pos() < allocs[j].Pos() || (allocs[i].Pos() == allocs[j].Pos() && allocs[i].Name() < allocs[j].Name())
	})
	for _, a := range allocs {
		v0 := edges[0].st.Cells[a]
		out := Value{T: v0.T, L: make([]Term, len(v0.L)), Loc: v0.Loc, Clo: v0.Clo, Fn: v0.Fn, Bind: v0.Bind}
		for _, e := range edges[1:] {
			v := e.st.Cells[a]
			if v.Loc != out.Loc && (v.Loc == nil || out.Loc == nil || *v.Loc != *out.Loc) {
				out.Loc = nil
				if v.Loc != nil || v0.Loc != nil {
					// pointer into different locals: poison
					out.Loc = &LocalRef{A: nil}
				}
			}
			if v.Clo != out.Clo {
				out.Clo, out.Bind = nil, nil
			}
			if v.Fn != out.Fn {
				out.Fn = nil
			}
		}
		for i := range v0.L {
			i := i
			out.L[i] = x.mergeTerm(a.Comment, edges, func(s *State) Term { return s.Cells[a].L[i] })
		}
		n.Cells[a] = out
	}
	sorts := map[Sort]bool{}
	for _, e := range edges {
		for k := range e.st.Heaps {
			sorts[k] = true
		}
	}
	for k := range sorts {
		k := k
		n.Heaps[k] = x.mergeTerm("H", edges, func(s *State) Term { return x.heap(s, k) })
	}
	doms := map[Sort]bool{}
	for _, e := range edges {
		for k := range e.st.MapDom {
			doms[k] = true
		}
	}
	for k := range doms {
		k := k
		n.MapDom[k] = x.mergeTerm("MD", edges, func(s *State) Term { return x.mapDom(s, k) })
	}
	mvals := map[string]bool{}
	for _, e := range edges {
		for k := range e.st.MapVal {
			mvals[k] = true
		}
	}
	for k := range mvals {
		k := k
		n.MapVal[k] = x.mergeTerm("MV", edges, func(s *State) Term {
			if t, ok := s.MapVal[k]; ok {
				return t
			}
			return x.baseSym(s.Base, "MV_"+k, x.mapValSorts[k])
		})
	}
	ghosts := map[string]bool{}
	for _, e := range edges {
		for k := range e.st.Ghost {
			ghosts[k] = true
		}
	}
	for k := range ghosts {
		k := k
		n.Ghost[k] = x.mergeTerm("G_"+k, edges, func(s *State) Term { return x.ghost(s, k) })
	}
	n.Base = edges[0].st.Base
	for _, e := range edges[1:] {
		if e.st.Base != n.Base {
			x.baseCounter++
			n.Base = fmt.Sprintf("m%d", x.baseCounter)
			break
		}
	}
	iters := map[*ssa.Range]bool{}
	for _, e := range edges {
		for k := range e.st.Iter {
			iters[k] = true
		}
	}
	for k := range iters {
		k := k
		all := true
		for _, e := range edges {
			if _, ok := e.st.Iter[k]; !ok {
				all = false
			}
		}
		if !all {
			continue // not started on every path: unknown set
		}
		if n.Iter == nil {
			n.Iter = map[*ssa.Range]Term{}
		}
		n.Iter[k] = x.mergeTerm("iterseen", edges, func(s *State) Term { return s.Iter[k] })
	}
	n.Frontier = x.mergeTerm("frontier", edges, func(s *State) Term { return s.Frontier })
	n.IterFrontier = x.mergeTerm("iterfrontier", edges, func(s *State) Term { return s.IterFrontier })
	n.HeadSt = edges[0].st.HeadSt
	for _, e := range edges {
		if e.st.HeadSt != n.HeadSt {
			n.HeadSt = nil // paths from different iterations/loops: no common loop-head state
		}
	}
	// defers: a defer statement executed on only some of the merging paths
	// becomes conditional (its guard says on which paths it was registered)
	var order []*ssa.Defer
	seen := map[*ssa.Defer]bool{}
	for _, e := range edges {
		for _, d := range e.st.Defers {
			if !seen[d.call] {
				seen[d.call] = true
				order = append(order, d.call)
			}
		}
	}
	for _, dc := range order {
		var proto *deferred
		guards := make([]Term, len(edges))
		for i, e := range edges {
			guards[i] = False
			for k := range e.st.Defers {
				if e.st.Defers[k].call == dc {
					guards[i] = e.st.Defers[k].guard
					if proto == nil {
						proto = &e.st.Defers[k]
					}
				}
			}
		}
		nd := *proto
		nd.guard = x.join("deferguard", conds, guards)
		// argument values must agree where registered; take the prototype's (arguments of
		// conditional defers in this code base are loop-free field addresses evaluated before the branch)
		n.Defers = append(n.Defers, nd)
	}
	return n
}

func (x *Exec) ghost(s *State, name string) Term {
	if t, ok := s.Ghost[name]; ok {
		return t
	}
	t := x.baseSym(s.Base, "G_"+name, SBV64)
	s.Ghost[name] = t
	return t
}

// ---------------------------------------------------------------------------
// memory access

// ptrParts splits a pointer value.
func ptrParts(p Value) (ref, off Term) { return p.L[0], p.L[1] }

func offAdd(off Term, k int64) Term {
	if k == 0 {
		return off
	}
	return BVOp("bvadd", off, BVLitI(64, k))
}

// loadLeaves reads the memory image of type t at (ref, off) as a Value.
func (x *Exec) loadAt(s *State, t types.Type, ref, off Term) Value {
	ls := x.E.layout(t)
	mo := x.E.memOffsets(t)
	v := Value{T: t, L: make([]Term, len(ls))}
	for i, srt := range ls {
		h := x.heap(s, srt)
		v.L[i] = Select(Select(h, ref, ObjSort(srt)), offAdd(off, mo[i]), srt)
	}
	x.assumeTypeInv(s, v)
	return v
}

func (x *Exec) storeAt(s *State, ref, off Term, v Value) {
	ls := x.E.layout(v.T)
	if len(ls) != len(v.L) {
		panic(fmt.Sprintf("storeAt: layout mismatch for %s: %d vs %d", v.T, len(ls), len(v.L)))
	}
	// group by sort so that each heap is updated once
	mo := x.E.memOffsets(v.T)
	for i, srt := range ls {
		h := x.heap(s, srt)
		obj := Select(h, ref, ObjSort(srt))
		nh := Store(h, ref, Store(obj, offAdd(off, mo[i]), v.L[i]))
		s.Heaps[srt] = x.C.Define("H", nh)
	}
}

// assumeTypeInv adds the invariants every well-typed value satisfies.
func (x *Exec) assumeTypeInv(s *State, v Value) {
	if x.C.noDefine > 0 {
		return
	}
	x.walkLeaves(v.T, 0, func(t types.Type, at int) {
		switch u := t.Underlying().(type) {
		case *types.Slice:
			ref, off, ln, cp := v.L[at], v.L[at+1], v.L[at+2], v.L[at+3]
			x.C.Assume(Implies(s.Reach, And(
				App(SBool, "<=", IntLit(0), ref), App(SBool, "<", ref, s.Frontier),
				BVCmp("bvule", ln, cp), BVCmp("bvult", cp, BVLitI(64, 1<<40)),
				BVCmp("bvult", off, BVLitI(64, 1<<44)),
				Implies(Eq(ref, IntLit(0)), And(Eq(cp, BVLitI(64, 0)), Eq(off, BVLitI(64, 0)))))))
			_ = u
		case *types.Pointer, *types.Map, *types.Chan, *types.Signature:
			ref := v.L[at]
			x.C.Assume(Implies(s.Reach, And(App(SBool, "<=", IntLit(0), ref), App(SBool, "<", ref, s.Frontier))))
			if _, isp := u.(*types.Pointer); isp {
				x.C.Assume(Implies(s.Reach, And(BVCmp("bvult", v.L[at+1], BVLitI(64, 1<<44)),
					Implies(Eq(ref, IntLit(0)), Eq(v.L[at+1], BVLitI(64, 0))))))
			}
		case *types.Interface:
			tag, ref, off := v.L[at], v.L[at+1], v.L[at+2]
			x.C.Assume(Implies(s.Reach, And(App(SBool, "<=", IntLit(0), tag),
				App(SBool, "<", ref, s.Frontier),
				Implies(Eq(tag, IntLit(0)), And(Eq(ref, IntLit(0)), Eq(off, BVLitI(64, 0)))))))
		case *types.Basic:
			if u.Info()&types.IsString != 0 {
				x.C.Assume(Implies(s.Reach, BVCmp("bvult", App(SBV64, "sx.len", v.L[at]), BVLitI(64, 1<<40))))
			}
		}
	})
}

// walkLeaves visits the scalar-ish components of t with their leaf index.
func (x *Exec) walkLeaves(t types.Type, at int, f func(t types.Type, at int)) int {
	switch u := t.Underlying().(type) {
	case *types.Struct:
		for i := 0; i < u.NumFields(); i++ {
			at = x.walkLeaves(u.Field(i).Type(), at, f)
		}
		return at
	case *types.Array:
		for i := int64(0); i < u.Len(); i++ {
			at = x.walkLeaves(u.Elem(), at, f)
		}
		return at
	case *types.Tuple:
		for i := 0; i < u.Len(); i++ {
			at = x.walkLeaves(u.At(i).Type(), at, f)
		}
		return at
	}
	f(t, at)
	return at + len(x.E.layout(t))
}

// freshValue makes an unconstrained value of type t (plus type invariants).
func (x *Exec) freshValue(s *State, name string, t types.Type) Value {
	ls := x.E.layout(t)
	v := Value{T: t, L: make([]Term, len(ls))}
	for i, srt := range ls {
		n := name
		if len(ls) > 1 {
			n = fmt.Sprintf("%s.%d", name, i)
		}
		v.L[i] = x.C.Fresh(n, srt)
	}
	x.assumeTypeInv(s, v)
	return v
}

// alloc returns a fresh reference.
func (x *Exec) alloc(s *State, name string) Term {
	r := x.C.Define("ref_"+name, s.Frontier)
	s.Frontier = x.C.Define("frontier", App(SInt, "+", s.Frontier, IntLit(1)))
	return r
}

// zeroObject makes every leaf of object ref zero for the sorts in t's image.
func (x *Exec) zeroObject(s *State, ref Term, t types.Type) {
	for _, srt := range x.E.memSorts(t) {
		h := x.heap(s, srt)
		z := Term{fmt.Sprintf("((as const %s) %s)", ObjSort(srt), zeroOf(srt).S), ObjSort(srt)}
		if srt == SStr {
			z = Term{"sx.emptyobj", ObjSort(srt)}
		}
		s.Heaps[srt] = x.C.Define("H", Store(h, ref, z))
	}
}

// havocHeaps replaces the given heaps (nil = everything, incl. maps and ghosts) by fresh arrays.
func (x *Exec) havocHeaps(s *State, sorts []Sort, why string) {
	if sorts == nil {
		sorts = AllLeafSorts
		for g := range x.E.ghostEmitters() {
			s.Ghost[g] = x.ghost(s, g)
		}
		x.baseCounter++
		s.Base = fmt.Sprintf("h%d", x.baseCounter)
		s.MapDom = map[Sort]Term{}
		s.MapVal = map[string]Term{}
		// ghosts are handled by havocGhosts (call-graph based)
	}
	for _, k := range sorts {
		s.Heaps[k] = x.C.Fresh("H_"+why, HeapSort(k))
	}
	nf := x.C.Fresh("frontier", SInt)
	x.C.Assume(Implies(s.Reach, App(SBool, "<=", s.Frontier, nf)))
	s.Frontier = nf
}
