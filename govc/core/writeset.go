package core

import (
	"fmt"
	"go/token"
	"go/types"
	"os"
	"sort"
	"strings"

	"golang.org/x/tools/go/ssa"
)

// FieldDecl is a write-set declaration:
//
//	//@ field T.f writers F1, F2, ...
//
// "every store into field f of a T happens in one of the listed functions, and
// the address of the field does not escape anywhere else". It is checked
// syntactically over the SSA of the whole package; once it holds, a call that
// cannot reach a listed writer keeps the field of every T object.
type FieldDecl struct {
	Struct   string
	Field    string
	Writers  map[string]bool
	Decl     *Decl
	st       *types.Struct
	named    *types.Named
	idx      int
	off      int64
	size     int64
	sorts    []Sort              // leaf sort at each leaf of the field
	Found    map[string][]string // function -> positions of writes (computed)
	Violated []string
	Props    []string
	Pointee  bool // the declaration covers the object the pointer field points to (T.f*)
	ptSorts  []Sort
	// MapContent: "T.f[]" — the declaration covers the entries of the map the field holds:
	// every insert/delete/clear on a map value loaded from the field, and every escape of that
	// value (argument, store, capture), occurs in a listed function. Scan only; it carries no
	// frame (kept in Engine.MapDecls, apart from the declarations the frame logic uses).
	MapContent bool
}

func (e *Engine) parseFieldDecls() error {
	for _, d := range e.Decls {
		if d.Kind != "field" {
			continue
		}
		parts := strings.SplitN(d.Text+" ", " writers ", 2)
		if len(parts) != 2 {
			return fmt.Errorf("%s:%d: field T.f writers F1, F2", d.File, d.Line)
		}
		head := strings.Fields(parts[0])
		var props []string
		if len(head) > 2 && head[1] == "props" {
			props = head[2:]
		}
		pointee := strings.HasSuffix(head[0], "*")
		head[0] = strings.TrimSuffix(head[0], "*")
		mapContent := strings.HasSuffix(head[0], "[]")
		head[0] = strings.TrimSuffix(head[0], "[]")
		tf := strings.SplitN(head[0], ".", 2)
		if len(tf) != 2 {
			return fmt.Errorf("%s:%d: field T.f writers ...", d.File, d.Line)
		}
		fd := &FieldDecl{Struct: tf[0], Field: tf[1], Writers: map[string]bool{}, Decl: d, Found: map[string][]string{}, Props: props}
		for _, w := range splitTopLevel(parts[1], ',') {
			fd.Writers[strings.TrimSpace(w)] = true
		}
		tn, ok := e.TPkg.Scope().Lookup(fd.Struct).(*types.TypeName)
		if !ok {
			return fmt.Errorf("%s:%d: unknown type %s", d.File, d.Line, fd.Struct)
		}
		fd.named, _ = tn.Type().(*types.Named)
		st, ok := tn.Type().Underlying().(*types.Struct)
		if !ok {
			return fmt.Errorf("%s:%d: %s is not a struct", d.File, d.Line, fd.Struct)
		}
		fd.st = st
		fd.idx = -1
		for i := 0; i < st.NumFields(); i++ {
			if st.Field(i).Name() == fd.Field {
				fd.idx = i
			}
		}
		if fd.idx < 0 {
			return fmt.Errorf("%s:%d: no field %s in %s", d.File, d.Line, fd.Field, fd.Struct)
		}
		if mapContent {
			if _, ok := st.Field(fd.idx).Type().Underlying().(*types.Map); !ok {
				return fmt.Errorf("%s:%d: %s.%s is not a map field", d.File, d.Line, fd.Struct, fd.Field)
			}
			fd.MapContent = true
			e.MapDecls = append(e.MapDecls, fd)
			continue
		}
		fd.off = e.fieldOff(st, fd.idx)
		fd.size = e.size(st.Field(fd.idx).Type())
		fd.sorts = e.memLeafSorts(st.Field(fd.idx).Type())
		if pointee {
			pt, ok := st.Field(fd.idx).Type().Underlying().(*types.Pointer)
			if !ok {
				return fmt.Errorf("%s:%d: %s.%s is not a pointer field", d.File, d.Line, fd.Struct, fd.Field)
			}
			fd.Pointee = true
			fd.ptSorts = e.memLeafSorts(pt.Elem())
		}
		e.FieldDecls = append(e.FieldDecls, fd)
	}
	e.analyseWriteSets()
	return nil
}

// memLeafSorts: the leaf sort at every memory offset of t ("" marks padding between
// array elements, which is never accessed).
func (e *Engine) memLeafSorts(t types.Type) []Sort {
	n := e.size(t)
	if n > 8192 {
		unsup("protected field too large")
	}
	out := make([]Sort, n)
	ls := e.layout(t)
	for i, o := range e.memOffsets(t) {
		out[o] = ls[i]
	}
	return out
}

// readOnlyUse: does this use of an address only read through it?
func (e *Engine) addrUseIsWrite(addr ssa.Value, user ssa.Instruction, depth int) bool {
	switch u := user.(type) {
	case *ssa.DebugRef:
		return false
	case *ssa.UnOp:
		return !(u.Op == token.MUL)
	case *ssa.Store:
		return u.Addr == addr || u.Val == addr // storing the address somewhere = escape
	case *ssa.FieldAddr, *ssa.IndexAddr:
		v := user.(ssa.Value)
		if depth > 6 {
			return true
		}
		for _, r := range *v.Referrers() {
			if e.addrUseIsWrite(v, r, depth+1) {
				return true
			}
		}
		return false
	case *ssa.Call:
		if callee := u.Call.StaticCallee(); callee != nil && len(u.Call.Args) > 0 && u.Call.Args[0] == addr && !u.Call.IsInvoke() {
			k := e.fnKey(callee)
			switch {
			case strings.HasPrefix(k, "(*sync.Mutex)."), strings.HasPrefix(k, "(*sync.RWMutex)."), strings.HasPrefix(k, "(*sync.WaitGroup)."):
				return false
			case strings.HasPrefix(k, "(*atomic."):
				return callee.Name() != "Load"
			case strings.HasPrefix(k, "atomic.Load"):
				return false
			}
			// a callee whose (verified) contract says "modifies nothing" only reads
			if ct := e.contractFor(callee); ct != nil && ct.Modifies != nil && len(ct.Modifies.List) == 0 && !ct.Trusted {
				return false
			}
			// value-receiver wrappers ($bound etc.) and everything else: escape
		}
		return true
	case *ssa.Defer:
		if callee := u.Call.StaticCallee(); callee != nil && len(u.Call.Args) > 0 && u.Call.Args[0] == addr {
			k := e.fnKey(callee)
			if strings.HasPrefix(k, "(*sync.Mutex).") || strings.HasPrefix(k, "(*sync.RWMutex).") {
				return false
			}
		}
		return true
	}
	return true
}

func containsNamed(t types.Type, n *types.Named, depth int) bool {
	if depth > 4 {
		return false
	}
	if types.Identical(t, n) {
		return true
	}
	switch u := t.Underlying().(type) {
	case *types.Struct:
		if _, isNamed := t.(*types.Named); isNamed && depth > 0 {
			// a different named struct embedding n by value
		}
		for i := 0; i < u.NumFields(); i++ {
			if containsNamed(u.Field(i).Type(), n, depth+1) {
				return true
			}
		}
	case *types.Array:
		return containsNamed(u.Elem(), n, depth+1)
	}
	return false
}

// mapContentWrite: a use of the map held by the field that changes its entries or lets the
// map value escape; "" if every use only reads (lookup, range, len).
func (e *Engine) mapContentWrite(fa *ssa.FieldAddr) string {
	for _, r := range *fa.Referrers() {
		switch u := r.(type) {
		case *ssa.DebugRef:
		case *ssa.Store:
			// assigning the map itself is governed by the plain declaration of the field
			if u.Val == ssa.Value(fa) {
				return e.Fset.Position(u.Pos()).String()
			}
		case *ssa.UnOp:
			if u.Op != token.MUL {
				return e.Fset.Position(u.Pos()).String()
			}
			for _, vr := range *u.Referrers() {
				switch c := vr.(type) {
				case *ssa.DebugRef, *ssa.Lookup, *ssa.Range:
				case *ssa.BinOp:
				case *ssa.MapUpdate:
					return e.Fset.Position(c.Pos()).String()
				case *ssa.Call:
					if b, ok := c.Call.Value.(*ssa.Builtin); ok && b.Name() == "len" {
						continue
					}
					return e.Fset.Position(c.Pos()).String()
				default:
					return e.Fset.Position(vr.Pos()).String()
				}
			}
		default:
			return e.Fset.Position(r.Pos()).String()
		}
	}
	return ""
}

// newFuncOnlyCalledFrom: key names a function that is new (not in the baseline, no contract)
// and every reference to it is a static call inside a listed writer (or inside another such
// new function): its writes then happen only during a listed writer's execution, which is
// what the declaration is about (an "extract helper" refactoring of a writer).
func (e *Engine) newFuncOnlyCalledFrom(key string, writers map[string]bool, depth int) bool {
	fn := e.funcsByKey[key]
	if fn == nil || depth > 3 || !e.isNewFunc(fn) {
		return false
	}
	callers := 0
	for ck, cf := range e.funcsByKey {
		for _, b := range cf.Blocks {
			for _, in := range b.Instrs {
				refs := false
				var ops []*ssa.Value
				for _, op := range in.Operands(ops) {
					if op != nil && *op == ssa.Value(fn) {
						refs = true
					}
				}
				if !refs {
					continue
				}
				call, isCall := in.(*ssa.Call)
				if !isCall || call.Call.StaticCallee() != fn {
					return false // used as a value, deferred or spawned: not a plain helper call
				}
				for _, a := range call.Call.Args {
					if a == ssa.Value(fn) {
						return false
					}
				}
				callers++
				if ck == key {
					return false
				}
				if !writers[ck] && !e.newFuncOnlyCalledFrom(ck, writers, depth+1) {
					return false
				}
			}
		}
	}
	return callers > 0
}

func (e *Engine) analyseMapDecls() {
	for key, fn := range e.funcsByKey {
		for _, b := range fn.Blocks {
			for _, in := range b.Instrs {
				fa, ok := in.(*ssa.FieldAddr)
				if !ok {
					continue
				}
				pt := deref(fa.X.Type())
				for _, fd := range e.MapDecls {
					if fd.idx != fa.Field || !types.Identical(pt, fd.named) {
						continue
					}
					if w := e.mapContentWrite(fa); w != "" {
						fd.Found[key] = append(fd.Found[key], w)
					}
				}
			}
		}
	}
	for _, fd := range e.MapDecls {
		var ks []string
		for k := range fd.Found {
			ks = append(ks, k)
		}
		sort.Strings(ks)
		for _, k := range ks {
			if !fd.Writers[k] && !e.newFuncOnlyCalledFrom(k, fd.Writers, 0) {
				fd.Violated = append(fd.Violated, fmt.Sprintf("%s changes the entries of %s.%s (or lets the map escape) at %s", k, fd.Struct, fd.Field, fd.Found[k][0]))
			}
		}
	}
}

func (e *Engine) analyseWriteSets() {
	e.analyseMapDecls()
	if len(e.FieldDecls) == 0 {
		return
	}
	for key, fn := range e.funcsByKey {
		for _, b := range fn.Blocks {
			for _, in := range b.Instrs {
				switch in := in.(type) {
				case *ssa.FieldAddr:
					pt := deref(in.X.Type())
					for _, fd := range e.FieldDecls {
						if fd.idx != in.Field || !types.Identical(pt, fd.named) {
							continue
						}
						// fields of an object allocated in this very function: initialisation of a new
						// object, not a write to any object that existed before
						if a := rootAlloc(in.X); a != nil && a.Parent() == fn {
							continue
						}
						if fd.Pointee {
							if w := e.pointeeWrite(in); w != "" {
								fd.Found[key] = append(fd.Found[key], w)
							}
							continue
						}
						for _, r := range *in.Referrers() {
							if e.addrUseIsWrite(in, r, 0) {
								fd.Found[key] = append(fd.Found[key], e.Fset.Position(r.Pos()).String())
								break
							}
						}
					}
				case *ssa.Store:
					// whole-struct store through a *T (or of a value containing T)
					for _, fd := range e.FieldDecls {
						if fd.Pointee {
							continue
						}
						if containsNamed(in.Val.Type(), fd.named, 0) {
							if a := rootAlloc(in.Addr); a != nil && a.Parent() == fn {
								// store into a local copy / initialisation of a newly allocated object
								continue
							}
							fd.Found[key] = append(fd.Found[key], e.Fset.Position(in.Pos()).String())
						}
					}
				}
			}
		}
	}
	for _, fd := range e.FieldDecls {
		var ks []string
		for k := range fd.Found {
			ks = append(ks, k)
		}
		sort.Strings(ks)
		for _, k := range ks {
			if !fd.Writers[k] && !e.newFuncOnlyCalledFrom(k, fd.Writers, 0) {
				fd.Violated = append(fd.Violated, fmt.Sprintf("%s writes %s.%s at %s", k, fd.Struct, fd.Field, fd.Found[k][0]))
			}
		}
	}
	e.buildCallGraph()
}

// buildCallGraph: static callees, closures created, function values referenced,
// go/defer targets. Dynamic calls contribute no edges (reentrancy through
// callbacks is excluded by assumption, see DESIGN §9).
func (e *Engine) buildCallGraph() {
	e.callees = map[*ssa.Function]map[*ssa.Function]bool{}
	e.dynKeys = map[*ssa.Function]map[string]bool{}
	for _, fn := range e.funcsByKey {
		out := map[*ssa.Function]bool{}
		dyn := map[string]bool{}
		e.dynKeys[fn] = dyn
		for _, b := range fn.Blocks {
			for _, in := range b.Instrs {
				if _, isGo := in.(*ssa.Go); isGo {
					// a spawned goroutine is not part of this call's sequential effect (its body is a
					// verification unit of its own; what it does concurrently is a schedule matter)
					continue
				}
				// interface method calls and calls through named local function variables: the
				// contract keys under which an assumed contract (and its ghost events) may be attached
				if ci, ok := in.(ssa.CallInstruction); ok {
					c := ci.Common()
					if c.StaticCallee() == nil {
						if _, isB := c.Value.(*ssa.Builtin); !isB {
							if e.sigSpecific(c.Signature()) {
								for _, t := range e.dynTargets(c) {
									out[t] = true
								}
							}
						}
					}
					if c.IsInvoke() {
						dyn[e.invokeKey(c)] = true
					} else if u, ok := c.Value.(*ssa.UnOp); ok && u.Op == token.MUL {
						if a, ok := u.X.(*ssa.Alloc); ok && a.Comment != "" {
							dyn["localfn "+a.Comment] = true
							if a.Parent() != nil {
								dyn["localfn "+e.fnKey(a.Parent())+"."+a.Comment] = true
							}
						}
					}
				}
				for _, op := range in.Operands(nil) {
					if f, ok := (*op).(*ssa.Function); ok {
						out[f] = true
					}
				}
				if mc, ok := in.(*ssa.MakeClosure); ok {
					out[mc.Fn.(*ssa.Function)] = true
				}
			}
		}
		e.callees[fn] = out
	}
	e.reachCache = map[*ssa.Function]map[string]bool{}
}

// reachKeys: keys of the package functions reachable from fn (including itself).
func (e *Engine) reachKeys(fn *ssa.Function) map[string]bool {
	if r, ok := e.reachCache[fn]; ok {
		return r
	}
	seen := map[*ssa.Function]bool{}
	stack := []*ssa.Function{fn}
	for len(stack) > 0 {
		f := stack[len(stack)-1]
		stack = stack[:len(stack)-1]
		if seen[f] {
			continue
		}
		seen[f] = true
		for c := range e.callees[f] {
			stack = append(stack, c)
		}
	}
	r := map[string]bool{}
	for f := range seen {
		r[e.fnKey(f)] = true
		for k := range e.dynKeys[f] {
			r[k] = true
		}
	}
	e.reachCache[fn] = r
	return r
}

// escapingFns: the package functions whose value escapes (is used other than as the callee
// of a call): closures handed to other code, method values, functions stored in fields. A
// dynamic call can only reach one of these (or, for interface calls, a method of the package).
func (e *Engine) escapingFns() []*ssa.Function {
	if e.escaping != nil {
		return e.escaping
	}
	e.escaping = []*ssa.Function{}
	seen := map[*ssa.Function]bool{}
	add := func(f *ssa.Function) {
		if f == nil {
			return
		}
		if f.Synthetic != "" && f.Object() != nil {
			// bound-method / thunk wrappers stand for the method itself
			if m, ok := f.Object().(*types.Func); ok {
				if real := e.Prog.FuncValue(m); real != nil {
					f = real
				}
			}
		}
		if !seen[f] {
			seen[f] = true
			e.escaping = append(e.escaping, f)
		}
	}
	// calledOnly: every use of v is as the callee of a call (possibly through a local variable)
	var calledOnly func(v ssa.Value, depth int) bool
	calledOnly = func(v ssa.Value, depth int) bool {
		refs := v.Referrers()
		if refs == nil {
			return false
		}
		for _, r := range *refs {
			switch r := r.(type) {
			case *ssa.DebugRef:
			case ssa.CallInstruction:
				c := r.Common()
				if c.Value != v {
					return false
				}
				for _, a := range c.Args {
					if a == v {
						return false
					}
				}
			case *ssa.Store:
				a, ok := r.Addr.(*ssa.Alloc)
				if !ok || r.Val != v || depth > 2 {
					return false
				}
				for _, ar := range *a.Referrers() {
					switch ar := ar.(type) {
					case *ssa.DebugRef, *ssa.Store:
					case *ssa.UnOp:
						if !calledOnly(ar, depth+1) {
							return false
						}
					default:
						return false
					}
				}
			default:
				return false
			}
		}
		return true
	}
	for _, fn := range e.funcsByKey {
		for _, b := range fn.Blocks {
			for _, in := range b.Instrs {
				if mc, ok := in.(*ssa.MakeClosure); ok {
					if !calledOnly(mc, 0) {
						add(mc.Fn.(*ssa.Function))
					}
					continue
				}
				var callee ssa.Value
				if ci, ok := in.(ssa.CallInstruction); ok {
					callee = ci.Common().Value
				}
				for _, op := range in.Operands(nil) {
					if f, ok := (*op).(*ssa.Function); ok && (*op) != callee {
						add(f)
					} else if ok && callee == f {
						// also passed as an argument of its own call?
						n := 0
						for _, op2 := range in.Operands(nil) {
							if *op2 == ssa.Value(f) {
								n++
							}
						}
						if n > 1 {
							add(f)
						}
					}
				}
			}
		}
	}
	return e.escaping
}

func sameParamsResults(a, b *types.Signature) bool {
	if a.Params().Len() != b.Params().Len() || a.Results().Len() != b.Results().Len() || a.Variadic() != b.Variadic() {
		return false
	}
	for i := 0; i < a.Params().Len(); i++ {
		if !types.Identical(a.Params().At(i).Type(), b.Params().At(i).Type()) {
			return false
		}
	}
	for i := 0; i < a.Results().Len(); i++ {
		if !types.Identical(a.Results().At(i).Type(), b.Results().At(i).Type()) {
			return false
		}
	}
	return true
}

// dynTargets: the functions of this package a dynamic call may reach — for an interface
// method call the package's methods of that name and signature, for a call through a
// function value the escaping functions of that signature. (Code of other packages that is
// reached instead can write this package's unexported fields only by calling back into it,
// which is excluded by the stated no-reentrancy assumption.)
func (e *Engine) dynTargets(c *ssa.CallCommon) []*ssa.Function {
	var out []*ssa.Function
	sig := c.Signature()
	if c.IsInvoke() {
		for _, fn := range e.funcsByKey {
			if fn.Signature.Recv() != nil && fn.Name() == c.Method.Name() && sameParamsResults(fn.Signature, sig) {
				out = append(out, fn)
			}
		}
		return out
	}
	for _, fn := range e.escapingFns() {
		fs := fn.Signature
		if sameParamsResults(fs, sig) {
			out = append(out, fn)
		}
	}
	return out
}

// sigSpecific: the signature mentions a named type of this package (in a parameter or
// result, through pointers/slices). Values of such function types are produced and consumed
// inside the package, so their flow is resolved by signature; for generic signatures
// (func(), func() error, Close() error, ...) only the candidate targets themselves are taken
// into account, not what they call in turn: package code reached through such a value is
// either a user callback (no re-entrancy, stated assumption) or work handed to another
// goroutine.
func (e *Engine) sigSpecific(sig *types.Signature) bool {
	var mentions func(t types.Type, d int) bool
	mentions = func(t types.Type, d int) bool {
		if d > 4 {
			return false
		}
		switch u := t.(type) {
		case *types.Named:
			return u.Obj().Pkg() == e.TPkg
		case *types.Pointer:
			return mentions(u.Elem(), d+1)
		case *types.Slice:
			return mentions(u.Elem(), d+1)
		case *types.Array:
			return mentions(u.Elem(), d+1)
		case *types.Map:
			return mentions(u.Key(), d+1) || mentions(u.Elem(), d+1)
		}
		return false
	}
	for i := 0; i < sig.Params().Len(); i++ {
		if mentions(sig.Params().At(i).Type(), 0) {
			return true
		}
	}
	for i := 0; i < sig.Results().Len(); i++ {
		if mentions(sig.Results().At(i).Type(), 0) {
			return true
		}
	}
	return false
}

// dynReach: the contract keys a dynamic call may reach (see sigSpecific).
func (e *Engine) dynReach(c *ssa.CallCommon) map[string]bool {
	if e.callees == nil {
		e.buildCallGraph()
	}
	reach := map[string]bool{}
	specific := e.sigSpecific(c.Signature())
	for _, t := range e.dynTargets(c) {
		if specific {
			for k := range e.reachKeys(t) {
				reach[k] = true
			}
		} else {
			reach[e.fnKey(t)] = true
		}
	}
	return reach
}

// preservedByDyn: the declared fields a dynamic call cannot write.
func (e *Engine) preservedByDyn(c *ssa.CallCommon) []*FieldDecl {
	if c == nil {
		return e.preservedBy(nil)
	}
	if e.callees == nil {
		e.buildCallGraph()
	}
	reach := e.dynReach(c)
	var out []*FieldDecl
	for _, fd := range e.preservedBy(nil) {
		hit := false
		for w := range fd.Writers {
			if reach[w] {
				hit = true
				break
			}
		}
		if !hit {
			out = append(out, fd)
		}
	}
	return out
}

// preservedBy: the declared fields that a call to fn (nil = dynamic callee) cannot write.
func (e *Engine) preservedBy(fn *ssa.Function) []*FieldDecl {
	var out []*FieldDecl
	for _, fd := range e.FieldDecls {
		if len(fd.Violated) > 0 {
			if os.Getenv("GOVC_DEBUG") != "" {
				fmt.Fprintf(os.Stderr, "debug: write-set of %s.%s violated: %v\n", fd.Struct, fd.Field, fd.Violated)
			}
			continue
		}
		if fn == nil {
			out = append(out, fd)
			continue
		}
		if fn.Pkg != e.Pkg && !(fn.Pkg == nil && fn.Origin() != nil && fn.Origin().Pkg == e.Pkg) {
			// external function: cannot name the unexported fields of this package; can only
			// write through pointers it is given, and field addresses do not escape (checked)
			out = append(out, fd)
			continue
		}
		r := e.reachKeys(fn)
		hit := false
		for w := range fd.Writers {
			if r[w] {
				hit = true
				if os.Getenv("GOVC_DEBUG") != "" {
					fmt.Fprintf(os.Stderr, "debug: call to %s may write %s.%s via %s\n", e.fnKey(fn), fd.Struct, fd.Field, w)
				}
				break
			}
		}
		if !hit {
			out = append(out, fd)
		}
	}
	return out
}

type notedAddr struct {
	ref, off Term
	t        *types.Named
	typ      types.Type
	size     Term
	slice    bool // backing array of a slice with element type typ (else: one value of type typ)
	reach    Term // path condition under which the address was noted (its ref term means nothing elsewhere)
}

type frameRec struct {
	fd        *FieldDecl
	pre, post map[Sort]Term
}

// noteStructAddr records that (ref, off) is the address of a T, and instantiates
// the frame facts of every havoc seen so far for the fields of T (ground
// instances of "fields under a write-set declaration survive calls that cannot
// reach a writer"; instantiated here because the solvers do badly on the
// quantified form).
func (x *Exec) noteStructAddr(s *State, t types.Type, ref, off Term) {
	if x.C.noDefine > 0 {
		return
	}
	n, ok := t.(*types.Named)
	if !ok {
		return
	}
	if _, isSt := n.Underlying().(*types.Struct); !isSt {
		return
	}
	key := n.Obj().Name() + "|" + ref.S + "|" + off.S + "|" + s.Reach.S
	if x.notedSeen[key] {
		return
	}
	x.notedSeen[key] = true
	a := notedAddr{ref: ref, off: off, t: n, typ: n, size: BVLitI(64, x.E.size(n))}
	x.noteRegion(s, a)
	x.noted[n.Obj().Name()] = append(x.noted[n.Obj().Name()], a)
	for _, fr := range x.frames {
		if types.Identical(n, fr.fd.named) {
			x.instFrame(fr, a)
		}
	}
}

// noteSlice records the backing region of a slice value.
func (x *Exec) noteSlice(s *State, v Value) {
	if x.C.noDefine > 0 {
		return
	}
	sl, ok := v.T.Underlying().(*types.Slice)
	if !ok || len(v.L) != 4 {
		return
	}
	key := "slice|" + types.TypeString(sl.Elem(), nil) + "|" + v.L[0].S + "|" + v.L[1].S + "|" + v.L[3].S + "|" + s.Reach.S
	if x.notedSeen[key] {
		return
	}
	x.notedSeen[key] = true
	x.noteRegion(s, notedAddr{ref: v.L[0], off: v.L[1], typ: sl.Elem(), size: mulOff(v.L[3], x.E.size(sl.Elem())), slice: true})
}

// noteRegion: Go type safety — typed regions whose types are unrelated (neither
// contains the other by value) are disjoint.
func (x *Exec) noteRegion(s *State, a notedAddr) {
	a.reach = s.Reach
	if a.reach.S == "" {
		a.reach = True
	}
	// allocation classes: a pointer to a standalone struct type (never embedded by
	// value in another type of the package) points to the start of an allocation of
	// exactly that type; a slice's backing array is never such an allocation unless
	// the struct contains an array of the element type.
	x.C.DeclareFun("cls", []Sort{SInt}, SInt)
	nz := Not(Eq(a.ref, IntLit(0)))
	if !a.slice {
		if n, ok := a.typ.(*types.Named); ok && x.E.standalone(n) {
			x.C.Assume(Implies(And(s.Reach, nz), And(Eq(app(SInt, "cls", a.ref), IntLit(x.E.typeID(n))), Eq(a.off, BVLitI(64, 0)))))
			x.C.Trusted["Go type safety: a pointer to a struct type that is never embedded by value points to the start of an allocation of that type"] = true
			if !x.clsStructs[n] {
				x.clsStructs[n] = true
				for _, b := range x.notedAll {
					if b.slice && !containsArrayOf(n, b.typ, 0) && !typeContains(b.typ, n, 0) {
						x.C.Assume(Implies(And(b.reach, Not(Eq(b.ref, IntLit(0)))), Not(Eq(app(SInt, "cls", b.ref), IntLit(x.E.typeID(n))))))
					}
				}
			}
		}
	} else {
		var ns []*types.Named
		for n := range x.clsStructs {
			ns = append(ns, n)
		}
		sort.Slice(ns, func(i, j int) bool { return x.E.typeID(ns[i]) < x.E.typeID(ns[j]) })
		for _, n := range ns {
			if !containsArrayOf(n, a.typ, 0) && !typeContains(a.typ, n, 0) {
				x.C.Assume(Implies(And(s.Reach, nz), Not(Eq(app(SInt, "cls", a.ref), IntLit(x.E.typeID(n))))))
			}
		}
	}
	for _, b := range x.notedAll {
		if b.ref.S == a.ref.S && b.off.S == a.off.S {
			continue
		}
		if x.E.regionsRelated(a, b) {
			continue
		}
		disjoint := Or(Not(Eq(a.ref, b.ref)), BVCmp("bvule", BVOp("bvadd", a.off, a.size), b.off), BVCmp("bvule", BVOp("bvadd", b.off, b.size), a.off))
		x.C.Assume(Implies(And(s.Reach, b.reach, Not(Eq(a.ref, IntLit(0))), Not(Eq(b.ref, IntLit(0)))), disjoint))
		x.C.Trusted["Go type safety: memory regions of unrelated types (neither contains the other by value) are disjoint"] = true
	}
	x.notedAll = append(x.notedAll, a)
}

// typeContains: does a value of type outer contain a value of type inner (by value)?
func typeContains(outer, inner types.Type, depth int) bool {
	if depth > 5 {
		return true // unknown: assume related
	}
	if types.Identical(outer, inner) {
		return true
	}
	switch u := outer.Underlying().(type) {
	case *types.Struct:
		for i := 0; i < u.NumFields(); i++ {
			if typeContains(u.Field(i).Type(), inner, depth+1) {
				return true
			}
		}
	case *types.Array:
		return typeContains(u.Elem(), inner, depth+1)
	case *types.Basic:
		if ib, ok := inner.Underlying().(*types.Basic); ok {
			// same machine representation may be reinterpreted through conversions of pointer types
			return u.Kind() == ib.Kind() || (u.Info()&types.IsInteger != 0 && ib.Info()&types.IsInteger != 0)
		}
	}
	return false
}

func (e *Engine) typesRelated(a, b types.Type) bool {
	k := types.TypeString(a, nil) + "|" + types.TypeString(b, nil)
	if r, ok := e.relatedCache2[k]; ok {
		return r
	}
	r := typeContains(a, b, 0) || typeContains(b, a, 0)
	e.relatedCache2[k] = r
	return r
}

func (e *Engine) related(a, b *types.Named) bool {
	k := [2]*types.Named{a, b}
	if r, ok := e.relatedCache[k]; ok {
		return r
	}
	r := containsNamed(a, b, 0) || containsNamed(b, a, 0)
	e.relatedCache[k] = r
	return r
}

func (x *Exec) instFrame(fr frameRec, a notedAddr) {
	var eqs []Term
	if fr.fd.Pointee {
		// the object the (unchanged) pointer field points to keeps its leaves
		fo := offAdd(a.off, fr.fd.off)
		pref := Select(Select(fr.pre[SInt], a.ref, ObjSort(SInt)), fo, SInt)
		poff := Select(Select(fr.pre[SBV64], a.ref, ObjSort(SBV64)), offAdd(fo, 1), SBV64)
		for i, k := range fr.fd.ptSorts {
			if k == "" {
				continue
			}
			oo := offAdd(poff, int64(i))
			eqs = append(eqs, Eq(Select(Select(fr.post[k], pref, ObjSort(k)), oo, k), Select(Select(fr.pre[k], pref, ObjSort(k)), oo, k)))
		}
		x.C.Assume(And(eqs...))
		return
	}
	for i, k := range fr.fd.sorts {
		if k == "" {
			continue
		}
		oo := offAdd(a.off, fr.fd.off+int64(i))
		eqs = append(eqs, Eq(Select(Select(fr.post[k], a.ref, ObjSort(k)), oo, k), Select(Select(fr.pre[k], a.ref, ObjSort(k)), oo, k)))
	}
	x.C.Assume(And(eqs...))
}

// assumePreserved registers, after a havoc from heaps pre to the heaps of s, the
// frame facts of the fields that the callee cannot write.
func (x *Exec) assumePreserved(s *State, pre map[Sort]Term, callee *ssa.Function, dynamic bool) {
	var fds []*FieldDecl
	if dynamic {
		fds = x.E.preservedByDyn(x.curCall)
		if len(fds) > 0 {
			x.C.Trusted["dynamic calls (callbacks, interface methods of other packages) do not re-enter the package to write fields under a write-set declaration"] = true
		}
	} else {
		fds = x.E.preservedBy(callee)
	}
	post := map[Sort]Term{}
	for k, h := range s.Heaps {
		post[k] = h
	}
	for _, fd := range fds {
		fr := frameRec{fd: fd, pre: pre, post: post}
		x.frames = append(x.frames, fr)
		for _, a := range x.noted[fd.named.Obj().Name()] {
			x.instFrame(fr, a)
		}
		x.C.Trusted[fmt.Sprintf("write-set of %s.%s (checked syntactically over the package SSA)", fd.Struct, fd.Field)] = true
	}
}

// ghostEmitters: for every ghost counter, the functions whose contract updates it.
func (e *Engine) ghostEmitters() map[string]map[string]bool {
	if e.emitters != nil {
		return e.emitters
	}
	e.emitters = map[string]map[string]bool{}
	for _, c := range e.ContractList {
		for _, g := range c.Ghost {
			name := g.Text
			if i := strings.IndexAny(name, "+="); i >= 0 {
				name = strings.TrimSpace(name[:i])
			}
			if e.emitters[name] == nil {
				e.emitters[name] = map[string]bool{}
			}
			e.emitters[name][c.Key] = true
		}
	}
	return e.emitters
}

// havocGhosts forgets the ghost counters a call to callee may bump.
func (x *Exec) havocGhosts(s *State, callee *ssa.Function) {
	em := x.E.ghostEmitters()
	if len(em) == 0 {
		return
	}
	if x.E.callees == nil {
		x.E.buildCallGraph()
	}
	if callee == nil {
		x.C.Trusted["dynamic calls do not re-enter the package to emit ghost-counted events"] = true
		if x.curCall != nil {
			reach := x.E.dynReach(x.curCall)
			for g, fns := range em {
				for f := range fns {
					if reach[f] {
						x.baseCounter++
						s.Ghost[g] = x.C.Fresh("G_"+g, SBV64)
						break
					}
				}
			}
		}
		return
	}
	if callee.Pkg != x.E.Pkg && !(callee.Pkg == nil && callee.Origin() != nil && callee.Origin().Pkg == x.E.Pkg) {
		return
	}
	r := x.E.reachKeys(callee)
	for g, fns := range em {
		for f := range fns {
			if r[f] {
				x.baseCounter++
				s.Ghost[g] = x.C.Fresh("G_"+g, SBV64)
				break
			}
		}
	}
}

// assumeSeparated: Go type safety — pointers to struct types neither of which
// contains the other address disjoint leaf ranges.
func (x *Exec) assumeSeparated(s *State, ps []Value) {
	for i := 0; i < len(ps); i++ {
		for j := i + 1; j < len(ps); j++ {
			a, b := ps[i], ps[j]
			ta, ok1 := deref(a.T).(*types.Named)
			tb, ok2 := deref(b.T).(*types.Named)
			if !ok1 || !ok2 || types.Identical(ta, tb) {
				continue
			}
			if _, isSt := ta.Underlying().(*types.Struct); !isSt {
				continue
			}
			if _, isSt := tb.Underlying().(*types.Struct); !isSt {
				continue
			}
			if containsNamed(ta, tb, 0) || containsNamed(tb, ta, 0) {
				continue
			}
			sa, sb := x.E.size(ta), x.E.size(tb)
			disjoint := Or(Not(Eq(a.L[0], b.L[0])),
				BVCmp("bvule", offAdd(a.L[1], sa), b.L[1]), BVCmp("bvule", offAdd(b.L[1], sb), a.L[1]))
			x.C.Assume(Implies(s.Reach, disjoint))
			x.C.Trusted["Go type safety: pointer parameters to unrelated struct types do not overlap"] = true
		}
	}
}

// containsArrayOf: does a value of type outer contain (by value) an array whose
// elements are of type elem?
func containsArrayOf(outer, elem types.Type, depth int) bool {
	if depth > 5 {
		return true
	}
	switch u := outer.Underlying().(type) {
	case *types.Struct:
		for i := 0; i < u.NumFields(); i++ {
			if containsArrayOf(u.Field(i).Type(), elem, depth+1) {
				return true
			}
		}
	case *types.Array:
		return typeContains(u.Elem(), elem, depth+1) || containsArrayOf(u.Elem(), elem, depth+1)
	}
	return false
}

// regionsRelated: may the two typed regions overlap under Go's type safety?
// A slice's backing array is an array allocation (or an array field): it can
// overlap a struct value only if the struct contains such an array, or if the
// struct itself lives inside the array's elements.
func (e *Engine) regionsRelated(a, b notedAddr) bool {
	switch {
	case a.slice && b.slice:
		return e.typesRelated(a.typ, b.typ)
	case a.slice != b.slice:
		sl, st := a, b
		if b.slice {
			sl, st = b, a
		}
		k := "sr|" + types.TypeString(sl.typ, nil) + "|" + types.TypeString(st.typ, nil)
		if r, ok := e.relatedCache2[k]; ok {
			return r
		}
		r := containsArrayOf(st.typ, sl.typ, 0) || typeContains(sl.typ, st.typ, 0)
		e.relatedCache2[k] = r
		return r
	}
	return e.typesRelated(a.typ, b.typ)
}

// pointeeWrite: for a pointer field under a pointee declaration, every load of
// the field may only be used as the receiver of sync/atomic methods (or be
// compared); it reports the first use in this FieldAddr that is a write or an
// escape ("" if all uses only read).
func (e *Engine) pointeeWrite(fa *ssa.FieldAddr) string {
	for _, r := range *fa.Referrers() {
		switch u := r.(type) {
		case *ssa.DebugRef:
		case *ssa.Store:
			// assigning the pointer itself is governed by the plain declaration of the field
			if u.Val == ssa.Value(fa) {
				return e.Fset.Position(u.Pos()).String()
			}
		case *ssa.UnOp:
			if u.Op != token.MUL {
				return e.Fset.Position(u.Pos()).String()
			}
			for _, vr := range *u.Referrers() {
				switch c := vr.(type) {
				case *ssa.DebugRef:
				case *ssa.BinOp:
				case *ssa.UnOp:
					// reading through the pointer
					if c.Op != token.MUL {
						return e.Fset.Position(c.Pos()).String()
					}
				case *ssa.Call:
					callee := c.Call.StaticCallee()
					if callee == nil || len(c.Call.Args) == 0 || c.Call.Args[0] != ssa.Value(u) || !strings.HasPrefix(e.fnKey(callee), "(*atomic.") {
						return e.Fset.Position(c.Pos()).String()
					}
					if callee.Name() != "Load" {
						return e.Fset.Position(c.Pos()).String()
					}
				default:
					return e.Fset.Position(vr.Pos()).String()
				}
			}
		default:
			return e.Fset.Position(r.Pos()).String()
		}
	}
	return ""
}

// standaloneTypes: the package's named struct types that no type of the package
// contains by value (as a field, array element or slice element).
func (e *Engine) standaloneTypes() []*types.Named {
	if e.standaloneList != nil {
		return e.standaloneList
	}
	var structs []*types.Named
	scope := e.TPkg.Scope()
	for _, name := range scope.Names() {
		if tn, ok := scope.Lookup(name).(*types.TypeName); ok {
			if n, ok := tn.Type().(*types.Named); ok {
				if _, ok := n.Underlying().(*types.Struct); ok && n.TypeParams().Len() == 0 {
					structs = append(structs, n)
				}
			}
		}
	}
	embedded := map[*types.Named]bool{}
	var mark func(t types.Type, depth int)
	mark = func(t types.Type, depth int) {
		if depth > 6 {
			return
		}
		switch u := t.(type) {
		case *types.Named:
			if _, ok := u.Underlying().(*types.Struct); ok {
				embedded[u] = true
			}
		case *types.Array:
			mark(u.Elem(), depth+1)
		case *types.Slice:
			mark(u.Elem(), depth+1)
		case *types.Map:
			mark(u.Elem(), depth+1)
			mark(u.Key(), depth+1)
		case *types.Chan:
			mark(u.Elem(), depth+1)
		}
	}
	// fields of every struct type, element types of every composite type mentioned in the package
	for _, n := range structs {
		st := n.Underlying().(*types.Struct)
		for i := 0; i < st.NumFields(); i++ {
			mark(st.Field(i).Type(), 0)
		}
	}
	for _, tv := range e.PPkg.TypesInfo.Types {
		switch u := tv.Type.(type) {
		case *types.Array:
			mark(u.Elem(), 0)
		case *types.Slice:
			mark(u.Elem(), 0)
		case *types.Map:
			mark(u.Elem(), 0)
		case *types.Chan:
			mark(u.Elem(), 0)
		}
	}
	// external named struct types the package handles by pointer (sync/atomic values, transports of
	// other packages, ...) are allocation classes too unless the package embeds them by value
	seenExt := map[*types.Named]bool{}
	for _, tv := range e.PPkg.TypesInfo.Types {
		if pt, ok := tv.Type.(*types.Pointer); ok {
			if n, ok := pt.Elem().(*types.Named); ok && n.Obj().Pkg() != e.TPkg && !seenExt[n] && n.TypeParams().Len() == 0 {
				if _, ok := n.Underlying().(*types.Struct); ok {
					seenExt[n] = true
					structs = append(structs, n)
				}
			}
		}
	}
	// by-value embedding among all collected struct types (including the external ones)
	for _, n := range structs {
		st := n.Underlying().(*types.Struct)
		for i := 0; i < st.NumFields(); i++ {
			mark(st.Field(i).Type(), 0)
		}
	}
	e.standaloneList = []*types.Named{}
	for _, n := range structs {
		if !embedded[n] {
			e.standaloneList = append(e.standaloneList, n)
		}
	}
	return e.standaloneList
}

func (e *Engine) standalone(n *types.Named) bool {
	for _, m := range e.standaloneTypes() {
		if m == n {
			return true
		}
	}
	return false
}
