package core

import (
	"fmt"
	"go/ast"
	"go/constant"
	"go/token"
	"go/types"
	"strconv"
	"strings"

	"golang.org/x/tools/go/ssa"
)

// specEnv is the environment in which a contract expression is evaluated.
type specEnv struct {
	x       *Exec
	fn      *ssa.Function // scope owner (for package lookup and locals)
	fr      *frame        // non-nil: identifiers may resolve to live locals of this frame
	st      *State
	old     *State
	names   map[string]Value // parameters, results, quantified variables
	inOld   bool
	params  map[string]Value // entry values of the parameters (used inside old() in loop invariants)
	localSt *State           // inside old(): the current state, where locals keep their current values
	pol     int              // +1: this position is assumed true; -1: assumed false (a goal); 0: unknown
}

func (env *specEnv) withPol(p int) *specEnv {
	if env.pol == p {
		return env
	}
	n := *env
	n.pol = p
	return &n
}

// evalAssume / evalGoal evaluate a clause that is about to be assumed / proved.
func (env *specEnv) evalAssume(e ast.Expr) Term { return env.withPol(1).evalBool(e) }
func (env *specEnv) evalGoal(e ast.Expr) Term   { return env.withPol(-1).evalBool(e) }

// polarityNode: connectives through which the polarity of a position is tracked.
func polarityNode(e ast.Expr) bool {
	switch e := e.(type) {
	case *ast.ParenExpr:
		return true
	case *ast.UnaryExpr:
		return e.Op == token.NOT
	case *ast.BinaryExpr:
		return e.Op == token.LAND || e.Op == token.LOR
	case *ast.CallExpr:
		if id, ok := e.Fun.(*ast.Ident); ok {
			return id.Name == "implies__" || id.Name == "forall__" || id.Name == "exists__"
		}
	}
	return false
}

func (env *specEnv) with(name string, v Value) *specEnv {
	n := *env
	n.names = make(map[string]Value, len(env.names)+1)
	for k, val := range env.names {
		n.names[k] = val
	}
	n.names[name] = v
	return &n
}

func (env *specEnv) pkg() *types.Package { return env.fn.Pkg.Pkg }

// evalBool evaluates a clause to an SMT Bool.
func (env *specEnv) evalBool(e ast.Expr) Term {
	saved := env.x.safety
	env.x.safety = false
	defer func() { env.x.safety = saved }()
	v := env.eval(e)
	if len(v.L) != 1 || v.L[0].Sort != SBool {
		unsup("contract expression is not boolean: %s", exprString(e))
	}
	return v.L[0]
}

func exprString(e ast.Expr) string { return types.ExprString(e) }

func (env *specEnv) eval(e ast.Expr) Value {
	x := env.x
	if env.pol != 0 && !polarityNode(e) {
		env = env.withPol(0)
	}
	switch e := e.(type) {
	case *ast.ParenExpr:
		return env.eval(e.X)
	case *ast.BasicLit:
		switch e.Kind {
		case token.INT:
			return Value{T: types.Typ[types.UntypedInt], Const: constant.MakeFromLiteral(e.Value, token.INT, 0)}
		case token.STRING:
			s, _ := strconv.Unquote(e.Value)
			return x.constValue(types.Typ[types.String], constant.MakeString(s))
		case token.CHAR:
			return Value{T: types.Typ[types.UntypedRune], Const: constant.MakeFromLiteral(e.Value, token.CHAR, 0)}
		}
		unsup("literal %s", e.Value)
	case *ast.Ident:
		return env.ident(e.Name)
	case *ast.SelectorExpr:
		// package-qualified identifier?
		if id, ok := e.X.(*ast.Ident); ok {
			if _, shadow := env.names[id.Name]; !shadow && env.localAlloc(id.Name) == nil {
				if p := env.importedPkg(id.Name); p != nil {
					return env.objectValue(p.Scope().Lookup(e.Sel.Name), e.Sel.Name)
				}
			}
		}
		base := env.eval(e.X)
		return env.selectField(base, e.Sel.Name)
	case *ast.StarExpr:
		p := env.eval(e.X)
		return x.load(nil2(env), env.st, p, deref(p.T), token.NoPos)
	case *ast.UnaryExpr:
		v := env.withPol(-env.pol).eval(e.X)
		switch e.Op {
		case token.NOT:
			return Value{T: v.T, L: []Term{Not(v.L[0])}}
		case token.SUB:
			if v.Const != nil {
				return Value{T: v.T, Const: constant.UnaryOp(token.SUB, v.Const, 0)}
			}
			return Value{T: v.T, L: []Term{app(v.L[0].Sort, "bvneg", v.L[0])}}
		case token.XOR:
			return Value{T: v.T, L: []Term{app(v.L[0].Sort, "bvnot", v.L[0])}}
		case token.AND:
			unsup("address-of in contract")
		}
	case *ast.BinaryExpr:
		if e.Op == token.LAND || e.Op == token.LOR {
			a, b := env.evalBool(e.X), env.evalBool(e.Y)
			if e.Op == token.LAND {
				return Value{T: types.Typ[types.Bool], L: []Term{And(a, b)}}
			}
			return Value{T: types.Typ[types.Bool], L: []Term{Or(a, b)}}
		}
		a, b := env.eval(e.X), env.eval(e.Y)
		return env.binary(e.Op, a, b)
	case *ast.IndexExpr:
		// an array that lives in memory is indexed by address arithmetic (loading the whole
		// array value and selecting with an ite chain is quadratic for large arrays)
		if id, ok := e.X.(*ast.Ident); ok && env.fr != nil {
			if _, shadow := env.names[id.Name]; !shadow {
				if a := env.localAlloc(id.Name); a != nil && !x.localCell(a) {
					if arr, isArr := deref(a.Type()).Underlying().(*types.Array); isArr && arr.Len() > 8 {
						p := env.fr.vals[a]
						i := env.toBV64(env.eval(e.Index))
						return x.loadAt(env.st, arr.Elem(), p.L[0], BVOp("bvadd", p.L[1], mulOff(i, x.stride(arr.Elem()))))
					}
				}
			}
		}
		base := env.eval(e.X)
		idx := env.eval(e.Index)
		return env.indexValue(base, idx)
	case *ast.SliceExpr:
		base := env.eval(e.X)
		sl, ok := base.T.Underlying().(*types.Slice)
		if !ok {
			unsup("slice expression on %s in contract", base.T)
		}
		lo, hi := BVLitI(64, 0), base.L[2]
		if e.Low != nil {
			lo = env.toBV64(env.eval(e.Low))
		}
		if e.High != nil {
			hi = env.toBV64(env.eval(e.High))
		}
		return Value{T: base.T, L: []Term{base.L[0], BVOp("bvadd", base.L[1], mulOff(lo, x.stride(sl.Elem()))), BVOp("bvsub", hi, lo), BVOp("bvsub", base.L[3], lo)}}
	case *ast.CallExpr:
		return env.call(e)
	case *ast.FuncLit:
		unsup("function literal outside quantifier")
	}
	unsup("contract expression %s (%T)", exprString(e), e)
	panic("unreachable")
}

// nil2 gives a frame for obligation naming inside spec evaluation (none are generated).
func nil2(env *specEnv) *frame {
	if env.fr != nil {
		return env.fr
	}
	return &frame{fn: env.fn}
}

func (env *specEnv) toBV64(v Value) Term {
	if v.Const != nil {
		i, _ := constant.Int64Val(constant.ToInt(v.Const))
		return BVLitI(64, i)
	}
	return Resize(v.L[0], 64, isSigned(v.T))
}

func (env *specEnv) importedPkg(name string) *types.Package {
	for _, imp := range env.pkg().Imports() {
		if imp.Name() == name {
			return imp
		}
	}
	return nil
}

func (env *specEnv) localAlloc(name string) *ssa.Alloc {
	if env.fr == nil {
		return nil
	}
	var best *ssa.Alloc
	consider := func(a *ssa.Alloc) {
		if a.Comment != name {
			return
		}
		live := false
		ls := env.st
		if env.localSt != nil {
			ls = env.localSt
		}
		if _, ok := ls.Cells[a]; ok {
			live = true
		} else if _, ok := env.fr.vals[a]; ok && !env.x.localCell(a) {
			live = true
		}
		if live && (best == nil || a.Pos() > best.Pos() || (a.Pos() == best.Pos() && a.Block() != nil && best.Block() != nil && a.Block().Index > best.Block().Index)) {
			best = a
		}
	}
	for _, a := range env.fr.fn.Locals {
		consider(a)
	}
	for _, b := range env.fr.fn.Blocks {
		for _, in := range b.Instrs {
			if a, ok := in.(*ssa.Alloc); ok && a.Heap {
				consider(a)
			}
		}
	}
	return best
}

func (env *specEnv) ident(name string) Value {
	x := env.x
	if v, ok := env.names[name]; ok {
		return v
	}
	switch name {
	case "true":
		return Value{T: types.Typ[types.Bool], L: []Term{True}}
	case "false":
		return Value{T: types.Typ[types.Bool], L: []Term{False}}
	case "nil":
		return Value{T: types.Typ[types.UntypedNil]}
	}
	if name == "rangelen" && env.fr != nil {
		// the length the innermost live range-over-slice loop iterates to (evaluated once, before the loop)
		if a := env.localAlloc("rangeindex"); a != nil {
			for _, b := range env.fr.fn.Blocks {
				for _, in := range b.Instrs {
					st, ok := in.(*ssa.Store)
					if !ok || st.Addr != ssa.Value(a) {
						continue
					}
					for _, in2 := range b.Instrs {
						if bo, ok := in2.(*ssa.BinOp); ok && bo.Op == token.LSS {
							if v, ok := env.fr.vals[bo.Y]; ok {
								return v
							}
							if c, ok := bo.Y.(*ssa.Const); ok {
								return x.constValue(c.Type(), c.Value)
							}
						}
					}
				}
			}
		}
		unsup("rangelen: no live range loop")
	}
	if name == "rangeint" {
		// the counter of a range-over-integer loop (completed iterations at the loop head)
		name = "rangeint.iter"
	}
	if a := env.localAlloc(name); a != nil {
		t := deref(a.Type())
		ls := env.st
		if env.localSt != nil {
			ls = env.localSt
		}
		if x.localCell(a) {
			c := ls.Cells[a]
			c.T = t
			return c
		}
		p := env.fr.vals[a]
		return x.loadAt(ls, t, p.L[0], p.L[1])
	}
	// free variables of closures
	if env.fr != nil {
		for i, fv := range env.fr.fn.FreeVars {
			if fv.Name() == name {
				if v, ok := x.constFV[fv]; ok {
					return v
				}
				p := env.fr.bindings[i]
				return x.load(env.fr, env.st, p, deref(p.T), token.NoPos)
			}
		}
	}
	if obj := env.pkg().Scope().Lookup(name); obj != nil {
		return env.objectValue(obj, name)
	}
	if obj := types.Universe.Lookup(name); obj != nil {
		return env.objectValue(obj, name)
	}
	unsup("unknown identifier %q in contract of %s", name, env.fn)
	panic("unreachable")
}

func (env *specEnv) objectValue(obj types.Object, name string) Value {
	x := env.x
	switch o := obj.(type) {
	case *types.Const:
		if b, ok := o.Type().Underlying().(*types.Basic); ok && b.Info()&types.IsUntyped != 0 {
			if b.Kind() == types.UntypedString {
				return x.constValue(types.Typ[types.String], o.Val())
			}
			if b.Kind() == types.UntypedBool {
				return x.constValue(types.Typ[types.Bool], o.Val())
			}
			return Value{T: o.Type(), Const: o.Val()}
		}
		return x.constValue(o.Type(), o.Val())
	case *types.Var:
		g, ok := x.E.Prog.Package(o.Pkg()).Members[o.Name()].(*ssa.Global)
		if !ok {
			unsup("variable %s is not a package-level variable", name)
		}
		if val, ok := x.E.readonlyGlobal(x, env.st, g); ok {
			return val
		}
		return x.loadAt(env.st, o.Type(), IntLit(x.E.globalRef(g)), BVLitI(64, 0))
	case *types.Nil:
		return Value{T: types.Typ[types.UntypedNil]}
	}
	unsup("identifier %q (%T) in contract", name, obj)
	panic("unreachable")
}

// selectField handles v.f for struct values and pointers to structs (auto-deref),
// including promoted fields.
func (env *specEnv) selectField(base Value, name string) Value {
	x := env.x
	obj, index, _ := types.LookupFieldOrMethod(base.T, true, env.pkg(), name)
	if _, ok := obj.(*types.Var); !ok {
		unsup("no field %s in %s", name, base.T)
	}
	cur := base
	for _, fi := range index {
		if isPointer(cur.T) {
			st := deref(cur.T).Underlying().(*types.Struct)
			ft := st.Field(fi).Type()
			if cur.Loc != nil {
				cell := env.st.Cells[cur.Loc.A]
				off := cur.Loc.Off + int(x.E.fieldOff(st, fi))
				cur = Value{T: ft, L: append([]Term(nil), cell.L[off:off+len(x.E.layout(ft))]...)}
				continue
			}
			x.noteStructAddr(env.st, deref(cur.T), cur.L[0], cur.L[1])
			cur = x.loadAt(env.st, ft, cur.L[0], offAdd(cur.L[1], x.E.fieldOff(st, fi)))
			continue
		}
		st, ok := cur.T.Underlying().(*types.Struct)
		if !ok {
			unsup("field selection on %s", cur.T)
		}
		lo := 0
		for i := 0; i < fi; i++ {
			lo += len(x.E.layout(st.Field(i).Type()))
		}
		ft := st.Field(fi).Type()
		cur = Value{T: ft, L: append([]Term(nil), cur.L[lo:lo+len(x.E.layout(ft))]...)}
	}
	return cur
}

// fieldAddr computes the address of base.f (base is a pointer to struct).
func (env *specEnv) addrOf(e ast.Expr) (ref, off Term, t types.Type) {
	x := env.x
	switch e := e.(type) {
	case *ast.ParenExpr:
		return env.addrOf(e.X)
	case *ast.StarExpr:
		p := env.eval(e.X)
		return p.L[0], p.L[1], deref(p.T)
	case *ast.SelectorExpr:
		var base Value
		var bref, boff Term
		haveAddr := false
		bv := env.eval(e.X)
		if isPointer(bv.T) {
			base = bv
			bref, boff = bv.L[0], bv.L[1]
			haveAddr = true
		} else {
			var bt types.Type
			bref, boff, bt = env.addrOf(e.X)
			base = Value{T: types.NewPointer(bt), L: []Term{bref, boff}}
			haveAddr = true
		}
		_ = haveAddr
		obj, index, _ := types.LookupFieldOrMethod(base.T, true, env.pkg(), e.Sel.Name)
		if _, ok := obj.(*types.Var); !ok {
			unsup("no field %s in %s", e.Sel.Name, base.T)
		}
		curT := deref(base.T)
		for k, fi := range index {
			st := curT.Underlying().(*types.Struct)
			x.noteStructAddr(env.st, curT, bref, boff)
			boff = offAdd(boff, x.E.fieldOff(st, fi))
			curT = st.Field(fi).Type()
			if k < len(index)-1 && isPointer(curT) {
				p := x.loadAt(env.st, curT, bref, boff)
				bref, boff = p.L[0], p.L[1]
				curT = deref(curT)
			}
		}
		return bref, boff, curT
	case *ast.IndexExpr:
		base := env.eval(e.X)
		idx := env.toBV64(env.eval(e.Index))
		switch u := base.T.Underlying().(type) {
		case *types.Slice:
			return base.L[0], BVOp("bvadd", base.L[1], mulOff(idx, x.stride(u.Elem()))), u.Elem()
		}
	case *ast.Ident:
		if env.fr != nil {
			if a := env.localAlloc(e.Name); a != nil && !x.localCell(a) {
				p := env.fr.vals[a]
				return p.L[0], p.L[1], deref(a.Type())
			}
		}
		if obj, ok := env.pkg().Scope().Lookup(e.Name).(*types.Var); ok {
			g := x.E.Prog.Package(obj.Pkg()).Members[obj.Name()].(*ssa.Global)
			return IntLit(x.E.globalRef(g)), BVLitI(64, 0), obj.Type()
		}
	}
	unsup("not an addressable contract expression: %s", exprString(e))
	panic("unreachable")
}

func (env *specEnv) indexValue(base, idx Value) Value {
	x := env.x
	switch u := base.T.Underlying().(type) {
	case *types.Slice:
		i := env.toBV64(idx)
		x.noteSlice(env.st, base)
		return x.loadAt(env.st, u.Elem(), base.L[0], BVOp("bvadd", base.L[1], mulOff(i, x.stride(u.Elem()))))
	case *types.Pointer:
		if arr, ok := u.Elem().Underlying().(*types.Array); ok {
			i := env.toBV64(idx)
			return x.loadAt(env.st, arr.Elem(), base.L[0], BVOp("bvadd", base.L[1], mulOff(i, x.stride(arr.Elem()))))
		}
	case *types.Array:
		i := env.toBV64(idx)
		n := len(x.E.layout(u.Elem()))
		out := Value{T: u.Elem(), L: make([]Term, n)}
		for l := 0; l < n; l++ {
			t := base.L[l]
			for k := int64(1); k < u.Len(); k++ {
				t = Ite(Eq(i, BVLitI(64, k)), base.L[int(k)*n+l], t)
			}
			out.L[l] = t
		}
		return out
	case *types.Basic:
		if isString(base.T) {
			return Value{T: types.Typ[types.Uint8], L: []Term{app(SBV8, "sx.at", base.L[0], env.toBV64(idx))}}
		}
	case *types.Map:
		key := env.coerce(idx, u.Key())
		v, _ := x.mapLookup(env.st, base, key, u)
		return v
	}
	unsup("index on %s in contract", base.T)
	panic("unreachable")
}

// coerce converts untyped constants / nil to the wanted type.
func (env *specEnv) coerce(v Value, t types.Type) Value {
	if v.Const != nil {
		return env.x.constValue(t, v.Const)
	}
	if b, ok := v.T.Underlying().(*types.Basic); ok && b.Kind() == types.UntypedNil {
		return env.x.E.zero(t)
	}
	return v
}

func (env *specEnv) binary(op token.Token, a, b Value) Value {
	x := env.x
	if a.Const != nil && b.Const != nil {
		switch op {
		case token.EQL, token.NEQ, token.LSS, token.LEQ, token.GTR, token.GEQ:
			r := constant.Compare(a.Const, op, b.Const)
			if r {
				return Value{T: types.Typ[types.Bool], L: []Term{True}}
			}
			return Value{T: types.Typ[types.Bool], L: []Term{False}}
		case token.SHL, token.SHR:
			n, _ := constant.Uint64Val(b.Const)
			return Value{T: a.T, Const: constant.Shift(a.Const, op, uint(n))}
		case token.QUO:
			return Value{T: a.T, Const: constant.BinaryOp(constant.ToInt(a.Const), token.QUO_ASSIGN, constant.ToInt(b.Const))}
		}
		return Value{T: a.T, Const: constant.BinaryOp(a.Const, op, b.Const)}
	}
	if op == token.SHL || op == token.SHR {
		if a.Const != nil {
			unsup("constant shifted by non-constant in contract")
		}
		if b.Const != nil {
			b = x.constValue(types.Typ[types.Uint64], b.Const)
		}
	} else {
		if a.Const != nil || isNilValue(a) {
			a = env.coerce(a, b.T)
		}
		if b.Const != nil || isNilValue(b) {
			b = env.coerce(b, a.T)
		}
	}
	rt := a.T
	switch op {
	case token.EQL, token.NEQ, token.LSS, token.LEQ, token.GTR, token.GEQ:
		rt = types.Typ[types.Bool]
	}
	saved := x.safety
	x.safety = false
	defer func() { x.safety = saved }()
	return x.binop(nil2(env), env.st, op, a, b, rt, token.NoPos)
}

func isNilValue(v Value) bool {
	b, ok := v.T.Underlying().(*types.Basic)
	return ok && b.Kind() == types.UntypedNil && v.Const == nil
}

// resolveType evaluates a type expression.
func (env *specEnv) resolveType(e ast.Expr) types.Type {
	switch e := e.(type) {
	case *ast.ParenExpr:
		return env.resolveType(e.X)
	case *ast.Ident:
		if obj := env.pkg().Scope().Lookup(e.Name); obj != nil {
			if tn, ok := obj.(*types.TypeName); ok {
				return tn.Type()
			}
		}
		if obj := types.Universe.Lookup(e.Name); obj != nil {
			if tn, ok := obj.(*types.TypeName); ok {
				return tn.Type()
			}
		}
	case *ast.SelectorExpr:
		if id, ok := e.X.(*ast.Ident); ok {
			if p := env.importedPkg(id.Name); p != nil {
				if tn, ok := p.Scope().Lookup(e.Sel.Name).(*types.TypeName); ok {
					return tn.Type()
				}
			}
		}
	case *ast.StarExpr:
		if t := env.resolveType(e.X); t != nil {
			return types.NewPointer(t)
		}
	case *ast.ArrayType:
		if e.Len == nil {
			if t := env.resolveType(e.Elt); t != nil {
				return types.NewSlice(t)
			}
		}
	}
	return nil
}

func (env *specEnv) call(e *ast.CallExpr) Value {
	x := env.x
	// builtins and spec forms
	if id, ok := e.Fun.(*ast.Ident); ok {
		if _, shadow := env.names[id.Name]; !shadow {
			switch id.Name {
			case "implies__":
				a, b := env.withPol(-env.pol).evalBool(e.Args[0]), env.evalBool(e.Args[1])
				return Value{T: types.Typ[types.Bool], L: []Term{Implies(a, b)}}
			case "forall__", "exists__":
				return env.quantifier(id.Name == "forall__", e.Args[0].(*ast.FuncLit))
			case "loophead":
				// loophead(e): e in the state at the head of the current iteration of the
				// innermost enclosing loop (heap and locals as they were there)
				if env.st.HeadSt == nil {
					unsup("loophead() outside a loop (or where paths of different loops meet)")
				}
				n := *env
				n.st = env.st.HeadSt
				n.localSt = env.st.HeadSt
				return n.eval(e.Args[0])
			case "old":
				if env.old == nil {
					unsup("old() where no pre-state is defined")
				}
				n := *env
				n.st = env.old
				n.inOld = true
				// the heap is the pre-state's; locals keep their current values (their cells are
				// looked up in the current state); parameters have their entry values
				if n.localSt == nil {
					n.localSt = env.st
				}
				if len(env.params) > 0 {
					n.names = make(map[string]Value, len(env.names)+len(env.params))
					for k, v := range env.params {
						n.names[k] = v
					}
					for k, v := range env.names {
						n.names[k] = v
					}
				}
				return n.eval(e.Args[0])
			case "len", "cap":
				v := env.eval(e.Args[0])
				it := types.Typ[types.Int]
				switch u := v.T.Underlying().(type) {
				case *types.Slice:
					if id.Name == "len" {
						return Value{T: it, L: []Term{v.L[2]}}
					}
					return Value{T: it, L: []Term{v.L[3]}}
				case *types.Basic:
					if isString(v.T) {
						return Value{T: it, L: []Term{app(SBV64, "sx.len", v.L[0])}}
					}
				case *types.Array:
					return Value{T: it, L: []Term{BVLitI(64, u.Len())}}
				case *types.Pointer:
					if arr, ok := u.Elem().Underlying().(*types.Array); ok {
						return Value{T: it, L: []Term{BVLitI(64, arr.Len())}}
					}
				}
				unsup("len/cap of %s in contract", v.T)
			case "istype":
				v := env.eval(e.Args[0])
				t := env.resolveType(e.Args[1])
				if t == nil {
					unsup("istype: unknown type %s", exprString(e.Args[1]))
				}
				return Value{T: types.Typ[types.Bool], L: []Term{Eq(v.L[0], IntLit(x.E.typeID(t)))}}
			case "ghost":
				name := strings.Trim(exprString(e.Args[0]), `"`)
				return Value{T: types.Typ[types.Uint64], L: []Term{x.ghost(env.st, name)}}
			case "indom":
				m := env.eval(e.Args[0])
				mt := m.T.Underlying().(*types.Map)
				k := env.coerce(env.eval(e.Args[1]), mt.Key())
				_, ok := x.mapLookup(env.st, m, k, mt)
				return Value{T: types.Typ[types.Bool], L: []Term{ok}}
			case "ite":
				c := env.evalBool(e.Args[0])
				a, b := env.eval(e.Args[1]), env.eval(e.Args[2])
				if a.Const != nil || isNilValue(a) {
					a = env.coerce(a, b.T)
				}
				if b.Const != nil || isNilValue(b) {
					b = env.coerce(b, a.T)
				}
				out := Value{T: a.T, L: make([]Term, len(a.L))}
				for i := range a.L {
					out.L[i] = Ite(c, a.L[i], b.L[i])
				}
				return out
			case "first", "second", "third":
				v := env.eval(e.Args[0])
				tup, ok := v.T.(*types.Tuple)
				if !ok {
					unsup("%s() of a non-tuple", id.Name)
				}
				idx := map[string]int{"first": 0, "second": 1, "third": 2}[id.Name]
				lo := 0
				for i := 0; i < idx; i++ {
					lo += len(x.E.layout(tup.At(i).Type()))
				}
				n := len(x.E.layout(tup.At(idx).Type()))
				return Value{T: tup.At(idx).Type(), L: append([]Term(nil), v.L[lo:lo+n]...)}
			case "ufbyte":
				// ufbyte("name", i): the i-th byte of an immutable, unconstrained byte string
				name := "ufb_" + sanitize(strings.Trim(exprString(e.Args[0]), `"`))
				x.C.DeclareFun(name, []Sort{SBV64}, SBV8)
				return Value{T: types.Typ[types.Uint8], L: []Term{app(SBV8, name, env.toBV64(env.eval(e.Args[1])))}}
			case "ufstr", "ufint", "ufbool":
				// ufstr("name"[, args...]): an unconstrained, immutable value (an uninterpreted
				// function of the leaves of the arguments when there are any)
				id := e.Fun.(*ast.Ident).Name
				srt, typ, pre := SStr, types.Type(types.Typ[types.String]), "ufs_"
				switch id {
				case "ufint":
					srt, typ, pre = SBV64, types.Typ[types.Int], "ufi_"
				case "ufbool":
					srt, typ, pre = SBool, types.Typ[types.Bool], "ufp_"
				}
				name := pre + sanitize(strings.Trim(exprString(e.Args[0]), `"`))
				if len(e.Args) == 1 {
					return Value{T: typ, L: []Term{x.C.Declare(name, srt)}}
				}
				var as []Term
				var sorts []Sort
				for _, a := range e.Args[1:] {
					for _, l := range env.eval(a).L {
						as = append(as, l)
						sorts = append(sorts, l.Sort)
					}
				}
				x.C.DeclareFun(name, sorts, srt)
				return Value{T: typ, L: []Term{app(srt, name, as...)}}
			case "mapseen":
				// mapseen(m, k): key k has already been produced by the (latest started) range loop over map m
				m := env.eval(e.Args[0])
				mt, ok := m.T.Underlying().(*types.Map)
				if !ok || env.fr == nil {
					unsup("mapseen(map, key)")
				}
				k := env.coerce(env.eval(e.Args[1]), mt.Key())
				var best *ssa.Range
				for it := range env.st.Iter {
					if v, ok := env.fr.vals[it]; ok && len(v.L) > 0 && v.L[0].S == m.L[0].S {
						if best == nil || it.Pos() > best.Pos() {
							best = it
						}
					}
				}
				if best == nil {
					unsup("mapseen: no range loop over this map is in progress")
				}
				return Value{T: types.Typ[types.Bool], L: []Term{Select(env.st.Iter[best], k.L[0], SBool)}}
			case "withzero":
				// withzero(b, lo, hi): the byte slice b with b[lo:hi] read as zero (lo, hi small
				// literals); only meaningful as an argument of a recursive spec function
				b := env.eval(e.Args[0])
				lo, hi := env.eval(e.Args[1]), env.eval(e.Args[2])
				if lo.Const == nil || hi.Const == nil || len(b.L) != 4 {
					unsup("withzero(slice, literal, literal)")
				}
				l, _ := constant.Int64Val(lo.Const)
				h, _ := constant.Int64Val(hi.Const)
				if h-l > 16 || l < 0 {
					unsup("withzero: range too large")
				}
				obj := Select(x.heap(env.st, SBV8), b.L[0], ObjSort(SBV8))
				if b.Obj != nil {
					obj = *b.Obj
				}
				for k := l; k < h; k++ {
					obj = Store(obj, offAdd(b.L[1], k), BVLitI(8, 0))
				}
				out := b
				out.Obj = &obj
				return out
			case "samebits":
				// samebits(a, b): the two values are the same bit pattern (for float64 this is stronger
				// than ==, which is an uninterpreted IEEE comparison here)
				a, b := env.eval(e.Args[0]), env.eval(e.Args[1])
				if len(a.L) != len(b.L) {
					unsup("samebits of different shapes")
				}
				cs := []Term{}
				for i := range a.L {
					cs = append(cs, Eq(a.L[i], b.L[i]))
				}
				return Value{T: types.Typ[types.Bool], L: []Term{And(cs...)}}
			case "sameobj":
				a, b := env.eval(e.Args[0]), env.eval(e.Args[1])
				return Value{T: types.Typ[types.Bool], L: []Term{Eq(a.L[0], b.L[0])}}
			case "sameptr":
				a, b := env.eval(e.Args[0]), env.eval(e.Args[1])
				return Value{T: types.Typ[types.Bool], L: []Term{And(Eq(a.L[0], b.L[0]), Eq(a.L[1], b.L[1]))}}
			case "freshiter":
				// freshiter(p): p was allocated after the last loop head crossed, i.e. in the current
				// iteration of the enclosing loop (an ownership condition: not shared with earlier iterations)
				v := env.eval(e.Args[0])
				return Value{T: types.Typ[types.Bool], L: []Term{App(SBool, ">=", v.L[0], env.st.IterFrontier)}}
			case "fresh":
				// fresh(p): p was allocated during the call (not allocated in the pre-state)
				v := env.eval(e.Args[0])
				if env.old == nil {
					unsup("fresh() where no pre-state is defined")
				}
				return Value{T: types.Typ[types.Bool], L: []Term{App(SBool, ">=", v.L[0], env.old.Frontier)}}
			}
		}
	}
	// conversion?
	if t := env.resolveType(e.Fun); t != nil && len(e.Args) == 1 {
		if _, isIdent := e.Fun.(*ast.Ident); !isIdent || env.names[e.Fun.(*ast.Ident).Name].T == nil {
			v := env.eval(e.Args[0])
			if v.Const != nil {
				return x.constValue(t, v.Const)
			}
			if isNilValue(v) {
				return x.E.zero(t)
			}
			return x.convert(nil2(env), env.st, v, t, token.NoPos)
		}
	}
	// function or method call: resolve the callee
	var callee *ssa.Function
	var args []Value
	switch f := e.Fun.(type) {
	case *ast.Ident:
		obj, _ := env.pkg().Scope().Lookup(f.Name).(*types.Func)
		if obj == nil {
			unsup("unknown function %s in contract", f.Name)
		}
		callee = x.E.Prog.FuncValue(obj)
	case *ast.SelectorExpr:
		if id, ok := f.X.(*ast.Ident); ok {
			if _, shadow := env.names[id.Name]; !shadow && env.localAlloc(id.Name) == nil {
				if p := env.importedPkg(id.Name); p != nil {
					obj, _ := p.Scope().Lookup(f.Sel.Name).(*types.Func)
					if obj == nil {
						unsup("unknown function %s.%s in contract", id.Name, f.Sel.Name)
					}
					callee = x.E.Prog.FuncValue(obj)
					break
				}
			}
		}
		// method call
		recv := env.eval(f.X)
		obj, index, indirect := types.LookupFieldOrMethod(recv.T, true, env.pkg(), f.Sel.Name)
		m, ok := obj.(*types.Func)
		if !ok {
			unsup("no method %s on %s", f.Sel.Name, recv.T)
		}
		_ = indirect
		// walk embedded fields
		for _, fi := range index[:len(index)-1] {
			st := deref(recv.T).Underlying().(*types.Struct)
			recv = env.selectField(recv, st.Field(fi).Name())
		}
		sig := m.Type().(*types.Signature)
		wantPtr := isPointer(sig.Recv().Type())
		if wantPtr && !isPointer(recv.T) {
			// need the address of the receiver expression
			ref, off, t := env.addrOf(f.X)
			recv = Value{T: types.NewPointer(t), L: []Term{ref, off}}
		} else if !wantPtr && isPointer(recv.T) && !isInterface(sig.Recv().Type()) {
			recv = x.loadAt(env.st, deref(recv.T), recv.L[0], recv.L[1])
		}
		if isInterface(recv.T) {
			unsup("interface method call %s in contract", f.Sel.Name)
		}
		callee = x.E.Prog.FuncValue(m)
		args = append(args, recv)
	default:
		unsup("call of %s in contract", exprString(e.Fun))
	}
	if callee == nil {
		unsup("cannot resolve callee of %s", exprString(e))
	}
	sig := callee.Signature
	for i, a := range e.Args {
		v := env.eval(a)
		pi := i
		if pi >= sig.Params().Len() {
			unsup("variadic call in contract")
		}
		v = env.coerce(v, sig.Params().At(pi).Type())
		if isInterface(sig.Params().At(pi).Type()) && !isInterface(v.T) {
			v = x.makeInterface(env.st, v, sig.Params().At(pi).Type())
		}
		args = append(args, v)
	}
	return x.specCall(env, callee, args)
}

// specCall evaluates a call inside a contract: stdlib models, or inlined pure bodies.
func (x *Exec) specCall(env *specEnv, callee *ssa.Function, args []Value) Value {
	saved := x.safety
	x.safety = false
	defer func() { x.safety = saved }()
	if res, ok := x.stdlibModel(nil2(env), env.st, callee, args, token.NoPos, true); ok {
		return tupleOrSingle(res, callee)
	}
	if ct := x.E.contractFor(callee); ct != nil && ct.Rec {
		return x.recCall(env.st, callee, args)
	}
	if len(callee.Blocks) == 0 {
		if x.E.scalarOnlyExternal(callee) {
			// the same deterministic uninterpreted function the executor uses for such calls
			return tupleOrSingle(x.uninterpretedCall(env.st, callee, args), callee)
		}
		unsup("contract calls %s which has no body and no model", callee)
	}
	st := env.st.Clone()
	exit, results, _ := x.run(callee, st, args, nil, x.E.contractFor(callee), true)
	if exit == nil {
		unsup("spec function %s never returns", callee)
	}
	return tupleOrSingle(results, callee)
}

func tupleOrSingle(results []Value, callee *ssa.Function) Value {
	if len(results) == 1 {
		return results[0]
	}
	out := Value{T: callee.Signature.Results()}
	for _, r := range results {
		out.L = append(out.L, r.L...)
	}
	return out
}

func (env *specEnv) quantifier(forall bool, fl *ast.FuncLit) Value {
	x := env.x
	p := fl.Type.Params.List[0]
	t := env.resolveType(p.Type)
	if t == nil {
		unsup("quantifier over unknown type %s", exprString(p.Type))
	}
	ls := x.E.layout(t)
	inner := env
	var vars []Term
	for _, nm := range p.Names {
		v := Value{T: t, L: make([]Term, len(ls))}
		for i, srt := range ls {
			v.L[i] = x.C.BoundVar(nm.Name, srt)
			vars = append(vars, v.L[i])
		}
		inner = inner.with(nm.Name, v)
	}
	ret := fl.Body.List[0].(*ast.ReturnStmt).Results[0]
	pol := env.pol
	if x.C.noDefine > 0 {
		pol = 0
	}
	if out, ok := env.expandQuantifier(forall, p, t, ret); ok {
		return out
	}
	body := func() Term {
		x.C.noDefine++
		defer func() { x.C.noDefine-- }()
		return inner.evalBool(ret)
	}()
	if forall {
		fa := Forall(vars, body)
		if len(vars) == 1 && len(p.Names) == 1 && pol > 0 && len(x.witnesses[vars[0].Sort]) > 0 {
			// an assumed universal: add its instances at the remembered witnesses
			prev := x.witnesses[vars[0].Sort]
			if len(prev) > 4 {
				prev = prev[len(prev)-4:]
			}
			cs := []Term{fa}
			for _, c := range prev {
				cs = append(cs, env.withPol(0).with(p.Names[0].Name, Value{T: t, L: []Term{c}}).evalBool(ret))
			}
			return Value{T: types.Typ[types.Bool], L: []Term{And(cs...)}}
		}
		return Value{T: types.Typ[types.Bool], L: []Term{fa}}
	}
	ex := Exists(vars, body)
	if len(vars) == 1 && len(p.Names) == 1 && pol != 0 {
		// Manual instantiation. An existential that is assumed is replaced by its body at a fresh
		// constant (skolemisation, equisatisfiable); the constant is remembered as a witness. An
		// existential to be proved is equivalent to Q(w1) || ... || exists i :: Q(i) for the remembered
		// witnesses of the same sort (each instance implies it); the ground instances spare the solver
		// the instantiation when one existential follows from another (callee post => caller post).
		srt := vars[0].Sort
		inst := func(c Term) Term {
			return env.with(p.Names[0].Name, Value{T: t, L: []Term{c}}).evalBool(ret)
		}
		if pol > 0 {
			w := x.C.Fresh("wit_"+p.Names[0].Name, srt)
			if x.witnesses == nil {
				x.witnesses = map[Sort][]Term{}
			}
			x.witnesses[srt] = append(x.witnesses[srt], w)
			return Value{T: types.Typ[types.Bool], L: []Term{inst(w)}}
		}
		prev := x.witnesses[srt]
		if len(prev) > 4 {
			prev = prev[len(prev)-4:]
		}
		ds := []Term{}
		for _, c := range prev {
			ds = append(ds, inst(c))
		}
		ds = append(ds, ex)
		return Value{T: types.Typ[types.Bool], L: []Term{Or(ds...)}}
	}
	return Value{T: types.Typ[types.Bool], L: []Term{ex}}
}

func (c *Clause) String() string { return fmt.Sprintf("%s %s", c.Kind, c.Text) }

// expandQuantifier: "forall i T :: lo <= i && i < hi ==> P(i)" over a range whose
// bounds evaluate to small literals is the finite conjunction of its instances
// (an equivalence, so it is used for assumptions and obligations alike).
func (env *specEnv) expandQuantifier(forall bool, p *ast.Field, t types.Type, body ast.Expr) (Value, bool) {
	if len(p.Names) != 1 || !forall || !isInteger(t) {
		return Value{}, false
	}
	call, ok := body.(*ast.CallExpr)
	if !ok {
		return Value{}, false
	}
	if id, ok := call.Fun.(*ast.Ident); !ok || id.Name != "implies__" {
		return Value{}, false
	}
	guard, ok := call.Args[0].(*ast.BinaryExpr)
	if !ok || guard.Op != token.LAND {
		return Value{}, false
	}
	name := p.Names[0].Name
	lo, ok1 := guard.X.(*ast.BinaryExpr)
	hi, ok2 := guard.Y.(*ast.BinaryExpr)
	if !ok1 || !ok2 || lo.Op != token.LEQ || hi.Op != token.LSS {
		return Value{}, false
	}
	if id, ok := lo.Y.(*ast.Ident); !ok || id.Name != name {
		return Value{}, false
	}
	if id, ok := hi.X.(*ast.Ident); !ok || id.Name != name {
		return Value{}, false
	}
	lit := func(e ast.Expr) (int64, bool) {
		v := env.eval(e)
		if v.Const != nil {
			n, ok := constant.Int64Val(constant.ToInt(v.Const))
			return n, ok
		}
		if len(v.L) == 1 && strings.HasPrefix(v.L[0].S, "#x") && len(v.L[0].S) <= 18 {
			n, err := strconv.ParseUint(v.L[0].S[2:], 16, 64)
			return int64(n), err == nil
		}
		return 0, false
	}
	l, okl := lit(lo.X)
	h, okh := lit(hi.Y)
	if !okl || !okh || h-l > 64 || h < l {
		return Value{}, false
	}
	var cs []Term
	for i := l; i < h; i++ {
		inner := env.with(name, env.x.constValue(t, constant.MakeInt64(i)))
		cs = append(cs, inner.evalBool(call.Args[1]))
	}
	return Value{T: types.Typ[types.Bool], L: []Term{And(cs...)}}, true
}
