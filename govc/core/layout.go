package core

import (
	"fmt"
	"go/constant"
	"go/types"

	"golang.org/x/tools/go/ssa"
)

// Value is a typed bundle of SMT leaves (structs and arrays are flattened).
type Value struct {
	T     types.Type
	L     []Term
	Loc   *LocalRef        // pointer into a non-escaping local cell
	Clo   *ssa.MakeClosure // statically known closure value
	Fn    *ssa.Function    // statically known function value
	Const constant.Value   // untyped constant (contract expressions only)
	Bind  []Value          // closure bindings evaluated at MakeClosure
	NN    bool             // pointer known to be non-nil
	Obj   *Term            // contract expressions only: the content array this slice value denotes (withzero)
}

// LocalRef addresses leaves [Off, Off+len(layout(T))) of the cell of alloc A.
type LocalRef struct {
	A   *ssa.Alloc
	Off int
}

type unsupported struct{ msg string }

func (u unsupported) Error() string { return "unsupported: " + u.msg }

func unsup(format string, args ...any) {
	panic(unsupported{fmt.Sprintf(format, args...)})
}

const maxFlatArray = 64

// layout returns the leaf sorts of a Go type.
func (e *Engine) layout(t types.Type) []Sort {
	if l, ok := e.layouts[t]; ok {
		return l
	}
	var l []Sort
	switch u := t.Underlying().(type) {
	case *types.Basic:
		switch {
		case u.Kind() == types.Invalid:
			l = []Sort{}
		case u.Kind() == types.Bool || u.Kind() == types.UntypedBool:
			l = []Sort{SBool}
		case u.Info()&types.IsInteger != 0:
			l = []Sort{BV(e.intWidth(u))}
		case u.Info()&types.IsString != 0:
			l = []Sort{SStr}
		case u.Kind() == types.Float32:
			l = []Sort{SBV32}
		case u.Kind() == types.Float64 || u.Kind() == types.UntypedFloat:
			l = []Sort{SBV64}
		case u.Kind() == types.UnsafePointer:
			l = []Sort{SInt, SBV64}
		case u.Kind() == types.UntypedNil:
			l = []Sort{SInt, SBV64}
		default:
			unsup("basic type %s", t)
		}
	case *types.Pointer:
		l = []Sort{SInt, SBV64}
	case *types.Slice:
		l = []Sort{SInt, SBV64, SBV64, SBV64}
	case *types.Map, *types.Chan, *types.Signature:
		l = []Sort{SInt}
	case *types.Interface:
		l = []Sort{SInt, SInt, SBV64}
	case *types.Struct:
		for i := 0; i < u.NumFields(); i++ {
			l = append(l, e.layout(u.Field(i).Type())...)
		}
	case *types.Array:
		el := e.layout(u.Elem())
		if u.Len()*int64(len(el)) > 4096 {
			unsup("array value too large to flatten: %s", t)
		}
		for i := int64(0); i < u.Len(); i++ {
			l = append(l, el...)
		}
	case *types.Tuple:
		for i := 0; i < u.Len(); i++ {
			l = append(l, e.layout(u.At(i).Type())...)
		}
	default:
		unsup("type %s (%T)", t, u)
	}
	if l == nil {
		l = []Sort{}
	}
	e.layouts[t] = l
	return l
}

// size is the number of leaves of a type *in memory*; large arrays are laid
// out in memory without being flattened as values.
func (e *Engine) size(t types.Type) int64 {
	switch u := t.Underlying().(type) {
	case *types.Array:
		return u.Len() * e.strideOf(u.Elem())
	case *types.Struct:
		var n int64
		for i := 0; i < u.NumFields(); i++ {
			n += e.size(u.Field(i).Type())
		}
		return n
	}
	return int64(len(e.layout(t)))
}

// memSorts lists the distinct leaf sorts that occur in the memory image of t.
func (e *Engine) memSorts(t types.Type) []Sort {
	seen := map[Sort]bool{}
	var out []Sort
	var walk func(t types.Type)
	walk = func(t types.Type) {
		switch u := t.Underlying().(type) {
		case *types.Array:
			walk(u.Elem())
		case *types.Struct:
			for i := 0; i < u.NumFields(); i++ {
				walk(u.Field(i).Type())
			}
		default:
			for _, s := range e.layout(t) {
				if !seen[s] {
					seen[s] = true
					out = append(out, s)
				}
			}
		}
	}
	walk(t)
	return out
}

func (e *Engine) fieldOff(st *types.Struct, idx int) int64 {
	var n int64
	for i := 0; i < idx; i++ {
		n += e.size(st.Field(i).Type())
	}
	return n
}

func (e *Engine) intWidth(b *types.Basic) int {
	switch b.Kind() {
	case types.Int8, types.Uint8:
		return 8
	case types.Int16, types.Uint16:
		return 16
	case types.Int32, types.Uint32:
		return 32
	default:
		return 64
	}
}

func isSigned(t types.Type) bool {
	b, ok := t.Underlying().(*types.Basic)
	return ok && b.Info()&types.IsInteger != 0 && b.Info()&types.IsUnsigned == 0
}

func isInteger(t types.Type) bool {
	b, ok := t.Underlying().(*types.Basic)
	return ok && b.Info()&types.IsInteger != 0
}

func isString(t types.Type) bool {
	b, ok := t.Underlying().(*types.Basic)
	return ok && b.Info()&types.IsString != 0
}

func isBool(t types.Type) bool {
	b, ok := t.Underlying().(*types.Basic)
	return ok && b.Info()&types.IsBoolean != 0
}

func isFloat(t types.Type) bool {
	b, ok := t.Underlying().(*types.Basic)
	return ok && b.Info()&types.IsFloat != 0
}

func isPointer(t types.Type) bool {
	switch u := t.Underlying().(type) {
	case *types.Pointer:
		return true
	case *types.Basic:
		return u.Kind() == types.UnsafePointer
	}
	return false
}

func isInterface(t types.Type) bool {
	_, ok := t.Underlying().(*types.Interface)
	return ok
}

func zeroOf(s Sort) Term {
	switch {
	case s == SBool:
		return False
	case s == SInt:
		return IntLit(0)
	case s == SStr:
		return Term{"sx.empty", SStr}
	case s.IsBV():
		return BVLitI(s.Width(), 0)
	}
	panic("zeroOf " + string(s))
}

func (e *Engine) zero(t types.Type) Value {
	ls := e.layout(t)
	v := Value{T: t, L: make([]Term, len(ls))}
	for i, s := range ls {
		v.L[i] = zeroOf(s)
	}
	return v
}

// typeID gives the interface tag of a concrete dynamic type (0 = nil interface).
func (e *Engine) typeID(t types.Type) int64 {
	k := types.TypeString(t, nil)
	if id, ok := e.typeIDs[k]; ok {
		return id
	}
	id := int64(len(e.typeIDs) + 1)
	e.typeIDs[k] = id
	e.typeNames[id] = k
	return id
}

// strideOf: the distance in leaves between consecutive elements of an array or
// slice of elem. It is the element size rounded up to a power of two, so that
// index arithmetic is shifts and masks (the layout is the verifier's own
// abstraction of memory; padding leaves are never accessed).
func (e *Engine) strideOf(elem types.Type) int64 {
	n := e.size(elem)
	p := int64(1)
	for p < n {
		p <<= 1
	}
	return p
}

// memOffsets: the memory offset of every layout leaf of a value of type t.
func (e *Engine) memOffsets(t types.Type) []int64 {
	if o, ok := e.memOffCache[t]; ok {
		return o
	}
	var out []int64
	switch u := t.Underlying().(type) {
	case *types.Struct:
		base := int64(0)
		for i := 0; i < u.NumFields(); i++ {
			for _, o := range e.memOffsets(u.Field(i).Type()) {
				out = append(out, base+o)
			}
			base += e.size(u.Field(i).Type())
		}
	case *types.Array:
		st := e.strideOf(u.Elem())
		el := e.memOffsets(u.Elem())
		for k := int64(0); k < u.Len(); k++ {
			for _, o := range el {
				out = append(out, k*st+o)
			}
		}
	case *types.Tuple:
		base := int64(0)
		for i := 0; i < u.Len(); i++ {
			for _, o := range e.memOffsets(u.At(i).Type()) {
				out = append(out, base+o)
			}
			base += e.size(u.At(i).Type())
		}
	default:
		for i := range e.layout(t) {
			out = append(out, int64(i))
		}
	}
	if out == nil {
		out = []int64{}
	}
	e.memOffCache[t] = out
	return out
}
