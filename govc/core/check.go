package core

import (
	"encoding/json"
	"fmt"
	"os"
	"path/filepath"
	"sort"
	"strings"
	"time"
)

// PropertyConfig says where a property's contracts live and how it is reported.
type PropertyConfig struct {
	ID       string   `json:"id"`
	Pkgs     []string `json:"pkgs"`
	Level    string   `json:"level"` // evidence level: proof | other
	Replay   string   `json:"replay,omitempty"`
	MinUnits int      `json:"min_units"`
	MinObls  int      `json:"min_obligations"`
	// Bounded stand-ins: functions outside the verifier's reach, checked by running the real
	// function over a finite, stated input space. Reported separately, never counted as proved.
	Bounded []BoundedSpec `json:"bounded,omitempty"`
}

// BoundedSpec names a bounded check (a test of the replay driver directory of the package).
type BoundedSpec struct {
	Pkg      string `json:"pkg"`
	Run      string `json:"run"`      // test function name
	Function string `json:"function"` // the function it stands in for
	Bound    string `json:"bound"`    // the bound, in words
	Why      string `json:"why"`      // why no contract reaches it
	LenQuick int    `json:"len_quick,omitempty"`
	LenThor  int    `json:"len_thorough,omitempty"`
}

// BoundedResult is what one bounded stand-in covered in this run.
type BoundedResult struct {
	Function        string  `json:"function"`
	Test            string  `json:"test"`
	Bound           string  `json:"bound"`
	Why             string  `json:"why_no_contract"`
	Status          string  `json:"status"` // "ok" | "violation" | "did-not-run"
	Summary         string  `json:"summary"`
	WallS           float64 `json:"wall_s"`
	CountedAsProved bool    `json:"counted_as_proved"`
	Cmd             string  `json:"cmd"`
}

// KnownFinding identifies a recorded defect by obligation and input class.
type KnownFinding struct {
	Property   string `json:"property"`
	Unit       string `json:"unit"`
	Obligation string `json:"obligation"`
	Class      string `json:"class"` // contract expression over the unit's inputs / old state ("" = whole obligation)
	What       string `json:"what"`
	Status     string `json:"status"` // "known" | "fixed"
	Commit     string `json:"commit,omitempty"`
	Pkg        string `json:"pkg,omitempty"` // package directory (relative to the repository); "" = any package of the property
}

type KnownFindingsFile struct {
	Findings []KnownFinding `json:"findings"`
}

func LoadKnownFindings(path string) (*KnownFindingsFile, error) {
	var kf KnownFindingsFile
	data, err := os.ReadFile(path)
	if err != nil {
		if os.IsNotExist(err) {
			return &kf, nil
		}
		return nil, err
	}
	if err := json.Unmarshal(data, &kf); err != nil {
		return nil, err
	}
	return &kf, nil
}

type oblRecord struct {
	Unit   string `json:"unit"`
	Name   string `json:"name"`
	Kind   string `json:"kind"`
	Pos    string `json:"pos,omitempty"`
	Clause string `json:"clause,omitempty"`
	Status string `json:"status"`
	Solver string `json:"solver,omitempty"`
	Ms     int64  `json:"ms"`
}

// Violation is one failed obligation that is not a known finding.
type Violation struct {
	Property   string            `json:"property"`
	Unit       string            `json:"unit"`
	Obligation string            `json:"obligation"`
	Kind       string            `json:"kind"`
	Pos        string            `json:"pos"`
	Clause     string            `json:"clause"`
	Status     string            `json:"solver_status"`
	Model      map[string]string `json:"model,omitempty"`
	Output     string            `json:"solver_output,omitempty"`
	Pkg        string            `json:"pkg"`
	ReplayCmd  string            `json:"replay_cmd,omitempty"`
	Replayed   string            `json:"replayed"` // "reproduced" | "not-reproduced" | "no-driver"
	ReplayLog  string            `json:"replay_log,omitempty"`
	File       string            `json:"-"`
}

type CheckResult struct {
	Property        string
	Units           []*UnitResult
	Violations      []*Violation
	KnownHit        []string
	Records         []oblRecord
	Obligations     int
	Discharged      int
	Covers          int
	CoversUndecided int
	Trusted         map[string]bool
	Abstracted      map[string]int
	Functions       []string
	SolverMs        int64
	LoadMs          int64
	WallS           float64
	Errors          []string
}

// RunProperty verifies every unit tagged with the property.
func RunProperty(repo string, cfg *PropertyConfig, kf *KnownFindingsFile, timeoutMs, par int, cross bool) (*CheckResult, error) {
	start := time.Now()
	cr := &CheckResult{Property: cfg.ID, Trusted: map[string]bool{}, Abstracted: map[string]int{}}
	for _, pkg := range cfg.Pkgs {
		e, err := Load(repo, pkg)
		if err != nil {
			return nil, fmt.Errorf("loading %s: %v", pkg, err)
		}
		cr.LoadMs += e.LoadMs
		e.Known = kf
		e.CurProp = cfg.ID
		e.CurPkg = pkg
		for _, ct := range e.ContractList {
			if !hasProp(ct.Props, cfg.ID) {
				continue
			}
			if ct.Pure && len(ct.Ensures) == 0 && len(ct.Requires) == 0 && ct.Modifies == nil {
				continue // spec helper
			}
			res := e.VerifyUnit(ct.Key, timeoutMs, par, cross, "")
			res.Pkg = pkg
			cr.Units = append(cr.Units, res)
		}
		for _, res := range e.WriteSetUnits(cfg.ID) {
			res.Pkg = pkg
			cr.Units = append(cr.Units, res)
		}
		for _, res := range e.LockedUnits(cfg.ID) {
			res.Pkg = pkg
			cr.Units = append(cr.Units, res)
		}
	}
	for _, u := range cr.Units {
		cr.Functions = append(cr.Functions, u.Unit+" ["+u.Kind+"]")
		cr.SolverMs += u.SolveMs
		for _, t := range u.Trusted {
			cr.Trusted[t] = true
		}
		for k, n := range u.Abstracted {
			cr.Abstracted[k] += n
		}
		if u.Kind == "trusted" {
			cr.Trusted["assumed contract (not verified): "+u.Unit] = true
			continue
		}
		if u.Error != "" {
			cr.Errors = append(cr.Errors, u.Unit+": "+u.Error)
			cr.Obligations++
			cr.Violations = append(cr.Violations, &Violation{Property: cfg.ID, Unit: u.Unit, Obligation: u.Unit + "#generation", Kind: "generation",
				Clause: "contract binds and the unit is inside the supported subset", Status: "error", Output: u.Error, Pkg: u.Pkg})
			continue
		}
		deadBudget := 0
		if u.Contract != nil {
			deadBudget = u.Contract.DeadReturnCount
		}
		for _, o := range u.Obls {
			if o.ReturnCover && o.Status == "unsat" && deadBudget > 0 {
				// declared defensive dead code
				deadBudget--
				cr.Covers++
				continue
			}
			rec := oblRecord{Unit: u.Unit, Name: o.Name, Kind: o.Kind, Pos: o.Pos, Clause: o.Clause, Status: o.Status, Solver: o.Solver, Ms: o.Ms}
			cr.Records = append(cr.Records, rec)
			if o.Vacuity {
				cr.Covers++
				if o.Status == "unknown" {
					// neither a witness nor a contradiction found: not evidence of vacuity
					cr.CoversUndecided++
					continue
				}
				if o.Status != "sat" {
					cr.Obligations++
					cr.Violations = append(cr.Violations, &Violation{Property: cfg.ID, Unit: u.Unit, Obligation: o.Name, Kind: "vacuity", Pos: o.Pos,
						Clause: "precondition satisfiable / exit reachable (vacuity guard)", Status: o.Status, Output: o.Output, Pkg: u.Pkg})
				}
				continue
			}
			if o.KnownClass != "" {
				if os.Getenv("GOVC_DEBUG") != "" {
					fmt.Fprintf(os.Stderr, "known-part %s status=%s candidate=%v solver=%s\n", o.Name, o.Status, o.Candidate, o.Solver)
				}
				// the part of a known finding: expected sat. It is reported unless it has been PROVED
				// away (unsat: the recorded class can no longer fail — the defect is gone). "unknown"
				// without a model (a loaded machine, quantified context) does not make a recorded,
				// replay-confirmed finding disappear.
				if o.Status != "unsat" {
					cr.KnownHit = append(cr.KnownHit, o.KnownWhat)
				}
				continue
			}
			cr.Obligations++
			if o.Status == "unsat" {
				cr.Discharged++
				continue
			}
			v := &Violation{Property: cfg.ID, Unit: u.Unit, Obligation: o.Name, Kind: o.Kind, Pos: o.Pos, Clause: o.Clause, Status: o.Status,
				Output: o.Output, Pkg: u.Pkg}
			if o.Status == "sat" || o.Candidate {
				v.Model = map[string]string{}
				for _, in := range u.Inputs {
					if val, ok := o.Model[in.Term.S]; ok {
						v.Model[in.Name] = val
					}
				}
			}
			cr.Violations = append(cr.Violations, v)
		}
	}
	sort.Strings(cr.Functions)
	cr.WallS = time.Since(start).Seconds()
	return cr, nil
}

func hasProp(ps []string, id string) bool {
	for _, p := range ps {
		if p == id {
			return true
		}
	}
	return false
}

// WriteEvidence writes /verif/evidence/<id>.json.
func (cr *CheckResult) WriteEvidence(dir string, cfg *PropertyConfig, tier string, seed int64, cmd string, level string, extra map[string]any) error {
	var trusted []string
	for k := range cr.Trusted {
		trusted = append(trusted, k)
	}
	sort.Strings(trusted)
	var abstracted []string
	for k, n := range cr.Abstracted {
		abstracted = append(abstracted, fmt.Sprintf("%s (x%d)", k, n))
	}
	sort.Strings(abstracted)
	var samples []any
	for i, r := range cr.Records {
		if r.Kind == "ensures" || r.Kind == "invariant" || r.Kind == "lemma" || r.Kind == "frame" {
			samples = append(samples, r)
		}
		if len(samples) >= 8 {
			break
		}
		_ = i
	}
	if len(samples) == 0 {
		for _, r := range cr.Records {
			samples = append(samples, r)
			if len(samples) >= 5 {
				break
			}
		}
	}
	bySolver := map[string]int{}
	byKind := map[string]int{}
	for _, r := range cr.Records {
		if r.Status == "unsat" {
			bySolver[r.Solver]++
		}
		byKind[r.Kind]++
	}
	cov := map[string]any{
		"obligations":              cr.Obligations,
		"discharged":               cr.Discharged,
		"checker_cmd":              cmd,
		"trusted_base":             trusted,
		"samples":                  samples,
		"functions_under_contract": cr.Functions,
		"units":                    len(cr.Units),
		"vacuity_covers_checked":   cr.Covers,
		"vacuity_covers_undecided": cr.CoversUndecided,
		"discharged_by_solver":     bySolver,
		"obligations_by_kind":      byKind,
		"abstracted_instructions":  abstracted,
		"solver_ms_total":          cr.SolverMs,
		"load_ms":                  cr.LoadMs,
		"known_findings_hit":       cr.KnownHit,
		"generation_errors":        cr.Errors,
		"explanation": "contract-based deductive verification: weakest-precondition VCs generated from the SSA of /repo's current sources (build tag verif), " +
			"one SMT query per obligation, discharged by z3 4.8.12 / z3 5.1.0 / cvc5 1.0; integers are bit-vectors of their Go width",
	}
	for k, v := range extra {
		cov[k] = v
	}
	ev := map[string]any{
		"property_id": cr.Property,
		"tier":        tier,
		"seed":        seed,
		"level":       level,
		"coverage":    cov,
		"assumptions": append(trusted, abstracted...),
		"wall_s":      cr.WallS,
		"violations":  len(cr.Violations),
	}
	data, err := json.MarshalIndent(ev, "", " ")
	if err != nil {
		return err
	}
	if err := os.MkdirAll(dir, 0o755); err != nil {
		return err
	}
	return os.WriteFile(filepath.Join(dir, cr.Property+".json"), data, 0o644)
}

// WriteReplay stores the violation as a replay file and returns its path.
func (v *Violation) WriteReplay(dir string) (string, error) {
	if err := os.MkdirAll(dir, 0o755); err != nil {
		return "", err
	}
	name := strings.NewReplacer("/", "_", "(", "", ")", "", "*", "", "#", "-", "$", "_", " ", "_").Replace(v.Obligation)
	if v.Pkg != "" && v.Pkg != "." {
		name = filepath.Base(v.Pkg) + "." + name
	}
	path := filepath.Join(dir, v.Property+"-"+name+".json")
	data, err := json.MarshalIndent(v, "", " ")
	if err != nil {
		return "", err
	}
	v.File = path
	return path, os.WriteFile(path, data, 0o644)
}
