package core

import (
	"fmt"
	"go/constant"
	"go/token"
	"go/types"
	"math/big"
	"path/filepath"
	"sort"
	"strings"

	"golang.org/x/tools/go/ssa"
)

// Exec executes one verification unit.
type Exec struct {
	safetyLimit token.Pos // unit function: no safety obligations at or after this position
	autoDepth   int
	autoParents []*frame
	E           *Engine
	C           *Ctx
	baseSyms    map[string]Term
	mapValSorts map[string]Sort
	baseCounter int
	curCall     *ssa.CallCommon // the call being executed (dynamic-target resolution)
	recInfos    map[*ssa.Function]*recInfo
	havocDepth  int
	stepHits    map[*Clause]int
	entry       *State // snapshot of the unit's entry state (for old())
	depth       int
	safety      bool // generate no-panic obligations
	oblCount    map[string]int
	unitFn      *ssa.Function
	noted       map[string][]notedAddr
	notedSeen   map[string]bool
	frames      []frameRec
	notedAll    []notedAddr
	divCache    map[string][2]Term
	mulSeen     map[string]bool
	frameOn     bool
	prune       bool
	clsStructs  map[*types.Named]bool
	frameTs     []modTarget
	witnesses   map[Sort][]Term
	constFV     map[*ssa.FreeVar]Value // captured variables no closure writes: constant during one invocation
}

func (e *Engine) NewExec(unit string) *Exec {
	return &Exec{E: e, C: NewCtx(unit), baseSyms: map[string]Term{}, mapValSorts: map[string]Sort{},
		oblCount: map[string]int{}, safety: true, noted: map[string][]notedAddr{}, notedSeen: map[string]bool{}, divCache: map[string][2]Term{}, mulSeen: map[string]bool{}, clsStructs: map[*types.Named]bool{}}
}

func (x *Exec) initialState() *State {
	s := &State{Reach: True, Cells: map[*ssa.Alloc]Value{}, Heaps: map[Sort]Term{}, MapDom: map[Sort]Term{},
		MapVal: map[string]Term{}, Ghost: map[string]Term{}, Base: "0"}
	for _, k := range AllLeafSorts {
		s.Heaps[k] = x.C.Declare("H0_"+sanitize(string(k)), HeapSort(k))
	}
	s.Frontier = x.C.Declare("R0", SInt)
	x.C.Assume(App(SBool, "<", IntLit(int64(x.E.firstDynRef)), s.Frontier))
	s.IterFrontier = s.Frontier
	return s
}

func (x *Exec) pos(p token.Pos) string {
	if !p.IsValid() {
		return ""
	}
	ps := x.E.Fset.Position(p)
	f := ps.Filename
	if i := strings.LastIndex(f, "/"); i >= 0 {
		f = f[i+1:]
	}
	return fmt.Sprintf("%s:%d", f, ps.Line)
}

// oblName makes stable obligation names: kind + ordinal within the function.
func (x *Exec) oblName(fn *ssa.Function, kind string) string {
	k := fn.String() + "#" + kind
	x.oblCount[k]++
	return fmt.Sprintf("%s#%s.%d", shortFn(fn), kind, x.oblCount[k])
}

func shortFn(fn *ssa.Function) string {
	s := fn.String()
	if fn.Pkg != nil {
		s = strings.ReplaceAll(s, fn.Pkg.Pkg.Path()+".", "")
	}
	return s
}

// frame is one (possibly inlined) function activation.
type frame struct {
	autoParent *frame // enclosing frame when this function is executed in place as a new function
	fn         *ssa.Function
	vals       map[ssa.Value]Value
	in         map[*ssa.BasicBlock][]edge
	returns    []edge
	retVals    [][]Value
	bindings   []Value
	params     []Value
	contract   *Contract
	loops      map[*ssa.BasicBlock]*loopInfo
	inline     bool
	entrySt    *State // state at function entry (old() for callee-level contracts)
	variants   map[*ssa.BasicBlock][]Term
	curBlock   *ssa.BasicBlock
	autoInv    map[*ssa.BasicBlock][]*ssa.Alloc
	headSt     map[*ssa.BasicBlock]*State // per loop: the state at its head (this iteration), for step clauses
}

type loopInfo struct {
	header  *ssa.BasicBlock
	body    map[*ssa.BasicBlock]bool
	ordinal int
}

func findLoops(fn *ssa.Function) map[*ssa.BasicBlock]*loopInfo {
	loops := map[*ssa.BasicBlock]*loopInfo{}
	reach := reachable(fn)
	for _, u := range fn.Blocks {
		if !reach[u] {
			continue
		}
		for _, h := range u.Succs {
			if h.Dominates(u) {
				li := loops[h]
				if li == nil {
					li = &loopInfo{header: h, body: map[*ssa.BasicBlock]bool{h: true}}
					loops[h] = li
				}
				// natural loop of back edge u->h
				stack := []*ssa.BasicBlock{u}
				for len(stack) > 0 {
					b := stack[len(stack)-1]
					stack = stack[:len(stack)-1]
					if li.body[b] {
						continue
					}
					li.body[b] = true
					stack = append(stack, b.Preds...)
				}
			}
		}
	}
	var hs []*ssa.BasicBlock
	for h := range loops {
		hs = append(hs, h)
	}
	sort.Slice(hs, func(i, j int) bool { return loopPos(loops[hs[i]]) < loopPos(loops[hs[j]]) })
	for i, h := range hs {
		loops[h].ordinal = i
	}
	return loops
}

// loopPos orders loops by source position (smallest position in the body,
// falling back to block index).
func loopPos(li *loopInfo) int {
	best := int(^uint(0) >> 1)
	for b := range li.body {
		for _, in := range b.Instrs {
			if _, ok := in.(*ssa.DebugRef); ok {
				continue
			}
			if p := in.Pos(); p.IsValid() && int(p) < best {
				best = int(p)
			}
		}
	}
	return best
}

func reachable(fn *ssa.Function) map[*ssa.BasicBlock]bool {
	r := map[*ssa.BasicBlock]bool{}
	if len(fn.Blocks) == 0 {
		return r
	}
	stack := []*ssa.BasicBlock{fn.Blocks[0]}
	for len(stack) > 0 {
		b := stack[len(stack)-1]
		stack = stack[:len(stack)-1]
		if r[b] {
			continue
		}
		r[b] = true
		stack = append(stack, b.Succs...)
	}
	return r
}

// topoOrder: reverse postorder ignoring back edges.
func topoOrder(fn *ssa.Function) []*ssa.BasicBlock {
	var order []*ssa.BasicBlock
	seen := map[*ssa.BasicBlock]bool{}
	var dfs func(b *ssa.BasicBlock)
	dfs = func(b *ssa.BasicBlock) {
		seen[b] = true
		for _, s := range b.Succs {
			if !seen[s] && !s.Dominates(b) {
				dfs(s)
			}
		}
		order = append(order, b)
	}
	dfs(fn.Blocks[0])
	for i, j := 0, len(order)-1; i < j; i, j = i+1, j-1 {
		order[i], order[j] = order[j], order[i]
	}
	return order
}

// run executes fn from state st with the given arguments. It returns the
// merged state at the returns and the result values (nil state: no return).
func (x *Exec) run(fn *ssa.Function, st *State, args []Value, bindings []Value, contract *Contract, inline bool) (*State, []Value, *frame) {
	if len(fn.Blocks) == 0 {
		unsup("function without body: %s", fn)
	}
	x.depth++
	defer func() { x.depth-- }()
	if x.depth > 12 {
		unsup("inlining too deep at %s", fn)
	}
	fr := &frame{fn: fn, vals: map[ssa.Value]Value{}, in: map[*ssa.BasicBlock][]edge{}, bindings: bindings,
		params: args, contract: contract, loops: findLoops(fn), inline: inline, variants: map[*ssa.BasicBlock][]Term{}, autoInv: map[*ssa.BasicBlock][]*ssa.Alloc{}}
	if contract == nil && len(x.autoParents) > 0 && x.E.autoInlineCache[fn] {
		fr.autoParent = x.autoParents[len(x.autoParents)-1]
	}
	for i, p := range fn.Params {
		fr.vals[p] = args[i]
	}
	for i, fv := range fn.FreeVars {
		fr.vals[fv] = bindings[i]
	}
	savedDefers := st.Defers
	st.Defers = nil
	fr.entrySt = st.Clone()
	order := topoOrder(fn)
	fr.in[fn.Blocks[0]] = []edge{{st: st, cond: st.Reach}}
	for _, b := range order {
		edges := fr.in[b]
		if len(edges) == 0 {
			continue
		}
		var live []edge
		for _, e := range edges {
			if e.cond.S != "false" {
				live = append(live, e)
			}
		}
		if len(live) == 0 {
			continue
		}
		// phis need per-edge values: evaluate before merging
		phiVals := map[*ssa.Phi][]Value{}
		for _, in := range b.Instrs {
			phi, ok := in.(*ssa.Phi)
			if !ok {
				break
			}
			vs := make([]Value, len(live))
			for i, e := range live {
				for pi, p := range b.Preds {
					if p == e.from {
						vs[i] = x.operand(fr, e.st, phi.Edges[pi])
					}
				}
			}
			phiVals[phi] = vs
		}
		s := x.merge(live)
		for phi, vs := range phiVals {
			out := Value{T: phi.Type(), L: make([]Term, len(vs[0].L))}
			for i := range out.L {
				i := i
				ts := make([]Term, len(vs))
				for k := range vs {
					ts[k] = vs[k].L[i]
				}
				conds := make([]Term, len(live))
				for k, e := range live {
					conds[k] = e.cond
				}
				out.L[i] = x.join("phi", conds, ts)
			}
			fr.vals[phi] = out
		}
		if li := fr.loops[b]; li != nil {
			s = x.enterLoop(fr, li, s)
		}
		fr.curBlock = b
		x.block(fr, b, s)
	}
	if len(fr.returns) == 0 {
		st.Defers = savedDefers
		return nil, nil, fr
	}
	// merge returns
	exit := x.merge(fr.returns)
	nres := fn.Signature.Results().Len()
	results := make([]Value, nres)
	for r := 0; r < nres; r++ {
		t := fn.Signature.Results().At(r).Type()
		ls := x.E.layout(t)
		out := Value{T: t, L: make([]Term, len(ls))}
		same := true
		for i := range ls {
			ts := make([]Term, len(fr.returns))
			for k := range fr.returns {
				ts[k] = fr.retVals[k][r].L[i]
			}
			if !sameTerms(ts) {
				same = false
			}
			conds := make([]Term, len(fr.returns))
			for k, e := range fr.returns {
				conds[k] = e.cond
			}
			out.L[i] = x.join(fmt.Sprintf("ret%d", r), conds, ts)
		}
		if same || len(fr.returns) == 1 {
			out.Loc, out.Clo, out.Fn, out.Bind = fr.retVals[0][r].Loc, fr.retVals[0][r].Clo, fr.retVals[0][r].Fn, fr.retVals[0][r].Bind
		}
		results[r] = out
	}
	exit.Defers = savedDefers
	// callee-local cells die here
	for a := range exit.Cells {
		if a.Parent() == fn {
			delete(exit.Cells, a)
		}
	}
	return exit, results, fr
}

func (x *Exec) addEdge(fr *frame, from, to *ssa.BasicBlock, st *State, cond Term) {
	if to.Dominates(from) {
		// back edge: check invariant, stop
		x.backEdge(fr, fr.loops[to], st, cond)
		return
	}
	// an edge that leaves a loop from inside its body (not from the loop head): "loop N break" clauses
	if fr.contract != nil {
		for _, li := range fr.loops {
			if li.body[from] && !li.body[to] && from != li.header && !leadsToReturn(to, 0) {
				if lc := fr.contract.Loops[li.ordinal]; lc != nil && len(lc.Breaks) > 0 {
					bst := st.Clone()
					bst.Reach = cond
					if h := fr.headSt[li.header]; h != nil {
						bst.HeadSt = h
					}
					env := x.invEnv(fr, bst)
					for k, bc := range lc.Breaks {
						x.obligeKnown(env, fmt.Sprintf("%s#loop%d.break%d.%d", shortFn(fr.fn), li.ordinal, k, x.bump(fr, fmt.Sprintf("brk%d", li.ordinal))), "break",
							x.pos(from.Instrs[len(from.Instrs)-1].Pos()), bc.Text, cond, env.evalGoal(bc.Expr))
					}
				}
			}
		}
	}
	fr.in[to] = append(fr.in[to], edge{st: st, cond: cond, from: from})
}

func (x *Exec) block(fr *frame, b *ssa.BasicBlock, s *State) {
	past := false
	if x.safetyLimit != token.NoPos && fr.fn == x.unitFn {
		for _, in := range b.Instrs {
			if p := in.Pos(); p != token.NoPos {
				past = p >= x.safetyLimit
				break
			}
		}
	}
	savedSafety := x.safety
	defer func() { x.safety = savedSafety }()
	for _, in := range b.Instrs {
		if _, ok := in.(*ssa.Phi); ok {
			continue
		}
		if s.Reach.S == "false" {
			return
		}
		if x.safetyLimit != token.NoPos && fr.fn == x.unitFn && savedSafety {
			if p := in.Pos(); p != token.NoPos {
				past = p >= x.safetyLimit
			}
			x.safety = !past
		}
		switch in := in.(type) {
		case *ssa.If:
			c := x.operand(fr, s, in.Cond).L[0]
			ct := x.C.Define("br", And(s.Reach, c))
			cf := x.C.Define("br", And(s.Reach, Not(c)))
			if x.prune {
				// narrow-precondition units: drop branches the precondition rules out
				if x.C.QuickUnsat(ct) {
					ct = False
				}
				if x.C.QuickUnsat(cf) {
					cf = False
				}
			}
			x.addEdge(fr, b, b.Succs[0], s, ct)
			x.addEdge(fr, b, b.Succs[1], s.Clone(), cf)
			return
		case *ssa.Jump:
			x.addEdge(fr, b, b.Succs[0], s, s.Reach)
			return
		case *ssa.Return:
			rv := make([]Value, len(in.Results))
			for i, r := range in.Results {
				rv[i] = x.operand(fr, s, r)
			}
			if !fr.inline {
				x.atReturn(fr, s, rv, in.Pos())
			}
			fr.returns = append(fr.returns, edge{st: s, cond: s.Reach, from: b})
			fr.retVals = append(fr.retVals, rv)
			return
		case *ssa.Panic:
			if strings.HasPrefix(b.Comment, "rangefunc.") || b.Comment == "yield-invalid" {
				// compiler-generated check of the range-over-func protocol: it fires only when the
				// iterator misuses the yield function (assumed of the iterators of the standard library)
				x.C.Trusted["iterators called by range-over-func loops honour the yield protocol (the compiler-generated protocol panics are unreachable)"] = true
				return
			}
			if x.safety {
				x.C.Oblige(x.oblName(fr.fn, "panic"), "panic", x.pos(in.Pos()), "explicit panic is unreachable", s.Reach, False)
			}
			return
		default:
			x.instr(fr, s, in)
		}
	}
}

// operand evaluates an SSA operand.
func (x *Exec) operand(fr *frame, s *State, v ssa.Value) Value {
	switch v := v.(type) {
	case *ssa.Const:
		return x.constValue(v.Type(), v.Value)
	case *ssa.Global:
		return Value{T: v.Type(), L: []Term{IntLit(x.E.globalRef(v)), BVLitI(64, 0)}, NN: true}
	case *ssa.Function:
		return Value{T: v.Type(), L: []Term{IntLit(x.E.funcRef(v))}, Fn: v}
	case *ssa.Builtin:
		return Value{T: v.Type(), L: []Term{IntLit(0)}}
	}
	if val, ok := fr.vals[v]; ok {
		return val
	}
	unsup("operand %s (%T) has no value in %s", v.Name(), v, fr.fn)
	panic("unreachable")
}

func (x *Exec) constValue(t types.Type, c constant.Value) Value {
	e := x.E
	if c == nil {
		return e.zero(t)
	}
	switch u := t.Underlying().(type) {
	case *types.Basic:
		switch {
		case u.Info()&types.IsBoolean != 0:
			if constant.BoolVal(c) {
				return Value{T: t, L: []Term{True}}
			}
			return Value{T: t, L: []Term{False}}
		case u.Info()&types.IsInteger != 0:
			bi, ok := constant.Val(constant.ToInt(c)).(*big.Int)
			if !ok {
				i64, _ := constant.Int64Val(constant.ToInt(c))
				bi = big.NewInt(i64)
			}
			return Value{T: t, L: []Term{BVLit(e.intWidth(u), bi)}}
		case u.Info()&types.IsString != 0:
			sv := constant.StringVal(c)
			if sv == "" {
				return Value{T: t, L: []Term{zeroOf(SStr)}}
			}
			return Value{T: t, L: []Term{x.C.StrLit(sv)}}
		case u.Info()&types.IsFloat != 0:
			f, _ := constant.Float64Val(c)
			w := 64
			if u.Kind() == types.Float32 {
				w = 32
			}
			return Value{T: t, L: []Term{x.floatLit(f, w)}}
		}
	}
	unsup("constant of type %s", t)
	panic("unreachable")
}

func (x *Exec) setVal(fr *frame, v ssa.Value, val Value) {
	for i := range val.L {
		val.L[i] = x.C.Define(v.Name(), val.L[i])
	}
	fr.vals[v] = val
}

// nilCheck emits the obligation that a pointer is non-nil.
func (x *Exec) nilCheck(fr *frame, s *State, p Value, pos token.Pos, what string) {
	if p.Loc != nil || !x.safety || p.NN {
		return
	}
	x.C.Oblige(x.oblName(fr.fn, "nil"), "nil", x.pos(pos), what+" is not nil", s.Reach, Not(Eq(p.L[0], IntLit(0))))
}

func (x *Exec) instr(fr *frame, s *State, in ssa.Instruction) {
	switch in := in.(type) {
	case *ssa.DebugRef:
	case *ssa.Alloc:
		x.execAlloc(fr, s, in)
	case *ssa.Store:
		addr := x.operand(fr, s, in.Addr)
		val := x.operand(fr, s, in.Val)
		x.store(fr, s, addr, val, in.Pos())
	case *ssa.UnOp:
		x.unop(fr, s, in)
	case *ssa.BinOp:
		a := x.operand(fr, s, in.X)
		b := x.operand(fr, s, in.Y)
		x.setVal(fr, in, x.binop(fr, s, in.Op, a, b, in.Type(), in.Pos()))
	case *ssa.FieldAddr:
		p := x.operand(fr, s, in.X)
		st := deref(in.X.Type()).Underlying().(*types.Struct)
		off := x.E.fieldOff(st, in.Field)
		if p.Loc != nil {
			if p.Loc.A == nil {
				unsup("pointer into ambiguous local")
			}
			x.setVal(fr, in, Value{T: in.Type(), L: []Term{IntLit(0), BVLitI(64, 0)}, Loc: &LocalRef{A: p.Loc.A, Off: p.Loc.Off + int(off)}})
			return
		}
		x.nilCheck(fr, s, p, in.Pos(), "struct pointer")
		x.noteStructAddr(s, deref(in.X.Type()), p.L[0], p.L[1])
		x.setVal(fr, in, Value{T: in.Type(), L: []Term{p.L[0], offAdd(p.L[1], off)}, NN: true})
	case *ssa.Field:
		v := x.operand(fr, s, in.X)
		st := in.X.Type().Underlying().(*types.Struct)
		lo := 0
		for i := 0; i < in.Field; i++ {
			lo += len(x.E.layout(st.Field(i).Type()))
		}
		n := len(x.E.layout(st.Field(in.Field).Type()))
		x.setVal(fr, in, Value{T: in.Type(), L: append([]Term(nil), v.L[lo:lo+n]...)})
	case *ssa.IndexAddr:
		x.indexAddr(fr, s, in)
	case *ssa.Index:
		x.index(fr, s, in)
	case *ssa.Slice:
		x.slice(fr, s, in)
	case *ssa.Lookup:
		x.lookup(fr, s, in)
	case *ssa.MapUpdate:
		x.mapUpdate(fr, s, in)
	case *ssa.MakeMap:
		r := x.alloc(s, "map")
		mt := in.Type().Underlying().(*types.Map)
		ks := x.E.layout(mt.Key())
		if len(ks) == 1 {
			d := x.mapDom(s, ks[0])
			empty := Term{fmt.Sprintf("((as const (Array %s Bool)) false)", ks[0]), Sort("(Array " + string(ks[0]) + " Bool)")}
			s.MapDom[ks[0]] = x.C.Define("MD", Store(d, r, empty))
		}
		x.setVal(fr, in, Value{T: in.Type(), L: []Term{r}})
	case *ssa.MakeSlice:
		ln := Resize(x.operand(fr, s, in.Len).L[0], 64, isSigned(in.Len.Type()))
		cp := Resize(x.operand(fr, s, in.Cap).L[0], 64, isSigned(in.Cap.Type()))
		if x.safety {
			x.C.Oblige(x.oblName(fr.fn, "makeslice"), "bounds", x.pos(in.Pos()), "make: 0 <= len <= cap", s.Reach,
				And(BVCmp("bvsle", BVLitI(64, 0), ln), BVCmp("bvsle", ln, cp)))
		}
		// allocation larger than the address space is out of the model
		x.C.Assume(Implies(s.Reach, BVCmp("bvult", cp, BVLitI(64, 1<<40))))
		r := x.alloc(s, "slice")
		x.zeroObject(s, r, in.Type().Underlying().(*types.Slice).Elem())
		x.setVal(fr, in, Value{T: in.Type(), L: []Term{r, BVLitI(64, 0), ln, cp}})
	case *ssa.MakeChan:
		r := x.alloc(s, "chan")
		x.setVal(fr, in, Value{T: in.Type(), L: []Term{r}})
	case *ssa.MakeInterface:
		x.setVal(fr, in, x.makeInterface(s, x.operand(fr, s, in.X), in.Type()))
	case *ssa.MakeClosure:
		fn := in.Fn.(*ssa.Function)
		binds := make([]Value, len(in.Bindings))
		for i, b := range in.Bindings {
			binds[i] = x.operand(fr, s, b)
		}
		r := x.alloc(s, "closure")
		fr.vals[in] = Value{T: in.Type(), L: []Term{r}, Clo: in, Bind: binds, Fn: fn}
	case *ssa.ChangeType:
		v := x.operand(fr, s, in.X)
		v.T = in.Type()
		fr.vals[in] = v
	case *ssa.ChangeInterface:
		v := x.operand(fr, s, in.X)
		v.T = in.Type()
		fr.vals[in] = v
	case *ssa.Convert:
		x.setVal(fr, in, x.convert(fr, s, x.operand(fr, s, in.X), in.Type(), in.Pos()))
	case *ssa.MultiConvert:
		x.setVal(fr, in, x.convert(fr, s, x.operand(fr, s, in.X), in.Type(), in.Pos()))
	case *ssa.SliceToArrayPointer:
		v := x.operand(fr, s, in.X)
		n := deref(in.Type()).Underlying().(*types.Array).Len()
		if x.safety {
			x.C.Oblige(x.oblName(fr.fn, "slice2array"), "bounds", x.pos(in.Pos()), "slice to array pointer: len >= N", s.Reach,
				BVCmp("bvuge", v.L[2], BVLitI(64, n)))
		}
		x.setVal(fr, in, Value{T: in.Type(), L: []Term{v.L[0], v.L[1]}})
	case *ssa.TypeAssert:
		x.typeAssert(fr, s, in)
	case *ssa.Extract:
		t := x.operand(fr, s, in.Tuple)
		tup := in.Tuple.Type().(*types.Tuple)
		lo := 0
		for i := 0; i < in.Index; i++ {
			lo += len(x.E.layout(tup.At(i).Type()))
		}
		n := len(x.E.layout(tup.At(in.Index).Type()))
		out := Value{T: in.Type(), L: append([]Term(nil), t.L[lo:lo+n]...)}
		if ann, ok := fr.tupleAnn(in.Tuple, in.Index); ok {
			out.Loc, out.Clo, out.Fn, out.Bind = ann.Loc, ann.Clo, ann.Fn, ann.Bind
		}
		fr.vals[in] = out
	case *ssa.Call:
		x.call(fr, s, in)
	case *ssa.Go:
		x.C.Abstracted["go statement (goroutine body is its own unit)"]++
		var goArgs []Value
		for _, a := range in.Call.Args {
			goArgs = append(goArgs, x.operand(fr, s, a))
		}
		// the spawn itself is an observable event: ghost clauses of the spawned function's contract apply
		if callee := in.Call.StaticCallee(); callee != nil {
			x.atCallCheck(fr, s, "go "+x.E.fnKey(callee), goArgs)
			if ct := x.E.contractFor(callee); ct != nil && len(ct.Ghost) > 0 {
				env := &specEnv{x: x, fn: callee, st: s, names: map[string]Value{}}
				for _, g := range ct.Ghost {
					x.ghostUpdate(env, s, g)
				}
			}
		}
	case *ssa.Defer:
		d := deferred{call: in}
		for _, a := range in.Call.Args {
			d.args = append(d.args, x.operand(fr, s, a))
		}
		if !in.Call.IsInvoke() {
			d.fnv = x.operand(fr, s, in.Call.Value)
		} else {
			d.fnv = x.operand(fr, s, in.Call.Value)
		}
		d.guard = True
		s.Defers = append(s.Defers, d)
	case *ssa.RunDefers:
		ds := s.Defers
		s.Defers = nil
		for i := len(ds) - 1; i >= 0; i-- {
			d := ds[i]
			if d.guard.S == "true" {
				x.callCommon(fr, s, &d.call.Call, d.fnv, d.args, nil, d.call.Pos())
				if s.Reach.S == "false" {
					return
				}
				continue
			}
			// conditional defer: run it on a copy under its guard and merge
			taken := s.Clone()
			taken.Reach = x.C.Define("br", And(s.Reach, d.guard))
			skipped := s.Clone()
			skipped.Reach = x.C.Define("br", And(s.Reach, Not(d.guard)))
			x.callCommon(fr, taken, &d.call.Call, d.fnv, d.args, nil, d.call.Pos())
			m := x.merge([]edge{{st: taken, cond: taken.Reach}, {st: skipped, cond: skipped.Reach}})
			*s = *m
		}
	case *ssa.Send:
		x.atSend(fr, s, x.operand(fr, s, in.X), in.Pos())
		x.C.Abstracted["channel send (no blocking semantics)"]++
	case *ssa.Select:
		for _, st := range in.States {
			if st.Dir == types.SendOnly && st.Send != nil {
				x.atSend(fr, s, x.operand(fr, s, st.Send), in.Pos())
				break
			}
		}
		x.C.Abstracted["select (havoc of outcome)"]++
		x.setVal(fr, in, x.freshValue(s, "select", in.Type()))
	case *ssa.Range:
		x.rangeInit(fr, s, in)
	case *ssa.Next:
		x.next(fr, s, in)
	default:
		unsup("instruction %T in %s", in, fr.fn)
	}
}

func (fr *frame) tupleAnn(t ssa.Value, idx int) (Value, bool) {
	return Value{}, false
}

func deref(t types.Type) types.Type {
	if p, ok := t.Underlying().(*types.Pointer); ok {
		return p.Elem()
	}
	return t
}

// localCell decides whether an Alloc lives in the environment (immune to havoc).
func (x *Exec) localCell(a *ssa.Alloc) bool {
	if hasBigArray(deref(a.Type())) {
		return false
	}
	if !a.Heap {
		return true
	}
	if r, ok := x.E.cellable[a]; ok {
		return r
	}
	r := x.E.onlyDirectUses(a, 0)
	x.E.cellable[a] = r
	return r
}

// onlyDirectUses: an escaping variable can still live in the environment when
// every use of its address is a direct load or store, in this function or in
// closures that capture it and are only ever called in place (they are inlined).
func (e *Engine) onlyDirectUses(v ssa.Value, depth int) bool {
	if depth > 4 || v.Referrers() == nil {
		return false
	}
	for _, r := range *v.Referrers() {
		switch u := r.(type) {
		case *ssa.DebugRef:
		case *ssa.UnOp:
			if u.Op != token.MUL {
				return false
			}
		case *ssa.Store:
			if u.Addr != v || u.Val == v {
				return false
			}
		case *ssa.MakeClosure:
			// a closure that only reads the variable may escape freely: nobody but this
			// function writes the variable, so its value as seen here is unaffected
			if fnc := u.Fn.(*ssa.Function); readsOnly(fnc, u, v, 0) {
				continue
			}
			// otherwise the closure itself must only be called in place (or deferred)
			for _, cr := range *u.Referrers() {
				switch c := cr.(type) {
				case *ssa.DebugRef:
				case *ssa.Call:
					if c.Call.Value != u {
						return false
					}
					for _, a := range c.Call.Args {
						if a == u {
							return false
						}
					}
				case *ssa.Defer:
					if c.Call.Value != u {
						return false
					}
				case *ssa.Store:
					// stored into a local function variable that is only ever called
					la, ok := c.Addr.(*ssa.Alloc)
					if !ok || la.Heap || c.Val != u || !onlyCalled(la) {
						return false
					}
				default:
					return false
				}
			}
			fn := u.Fn.(*ssa.Function)
			for i, b := range u.Bindings {
				if b == v {
					if !e.onlyDirectUses(fn.FreeVars[i], depth+1) {
						return false
					}
				}
			}
		default:
			return false
		}
	}
	return true
}

func hasBigArray(t types.Type) bool {
	switch u := t.Underlying().(type) {
	case *types.Array:
		return true
	case *types.Struct:
		for i := 0; i < u.NumFields(); i++ {
			if hasBigArray(u.Field(i).Type()) {
				return true
			}
		}
	}
	return false
}

func (x *Exec) execAlloc(fr *frame, s *State, in *ssa.Alloc) {
	t := deref(in.Type())
	if x.localCell(in) {
		s.Cells[in] = x.E.zero(t)
		fr.vals[in] = Value{T: in.Type(), L: []Term{IntLit(0), BVLitI(64, 0)}, Loc: &LocalRef{A: in}}
		return
	}
	r := x.alloc(s, in.Comment)
	x.zeroObject(s, r, t)
	fr.vals[in] = Value{T: in.Type(), L: []Term{r, BVLitI(64, 0)}, NN: true}
}

func (x *Exec) load(fr *frame, s *State, addr Value, t types.Type, pos token.Pos) Value {
	if addr.Loc != nil {
		if addr.Loc.A == nil {
			unsup("load through pointer into ambiguous local")
		}
		cell, ok := s.Cells[addr.Loc.A]
		if !ok {
			unsup("load from dead local %s", addr.Loc.A.Comment)
		}
		n := len(x.E.layout(t))
		if addr.Loc.Off == 0 && n == len(cell.L) {
			out := cell
			out.T = t
			return out
		}
		return Value{T: t, L: append([]Term(nil), cell.L[addr.Loc.Off:addr.Loc.Off+n]...)}
	}
	if pos.IsValid() || true {
		x.nilCheck(fr, s, addr, pos, "dereferenced pointer")
	}
	return x.loadAt(s, t, addr.L[0], addr.L[1])
}

func (x *Exec) store(fr *frame, s *State, addr, val Value, pos token.Pos) {
	if addr.Loc != nil {
		if addr.Loc.A == nil {
			unsup("store through pointer into ambiguous local")
		}
		cell, ok := s.Cells[addr.Loc.A]
		if !ok {
			unsup("store to dead local %s", addr.Loc.A.Comment)
		}
		if addr.Loc.Off == 0 && len(val.L) == len(cell.L) {
			nv := val
			nv.T = cell.T
			s.Cells[addr.Loc.A] = nv
			return
		}
		nl := append([]Term(nil), cell.L...)
		copy(nl[addr.Loc.Off:], val.L)
		s.Cells[addr.Loc.A] = Value{T: cell.T, L: nl}
		return
	}
	x.nilCheck(fr, s, addr, pos, "stored-to pointer")
	x.frameCheckLoc(fr, s, addr.L[0], addr.L[1], int64(len(val.L)), pos)
	x.storeAt(s, addr.L[0], addr.L[1], val)
}

func (x *Exec) unop(fr *frame, s *State, in *ssa.UnOp) {
	v := x.operand(fr, s, in.X)
	switch in.Op {
	case token.MUL:
		if g, ok := in.X.(*ssa.Global); ok {
			if val, ok := x.E.readonlyGlobal(x, s, g); ok {
				fr.vals[in] = val
				return
			}
		}
		if fv, ok := in.X.(*ssa.FreeVar); ok {
			if val, ok := x.constFV[fv]; ok {
				fr.vals[in] = val
				return
			}
		}
		out := x.load(fr, s, v, in.Type(), in.Pos())
		if out.Loc == nil && out.Clo == nil {
			for i := range out.L {
				out.L[i] = x.C.Define(in.Name(), out.L[i])
			}
		}
		fr.vals[in] = out
	case token.NOT:
		x.setVal(fr, in, Value{T: in.Type(), L: []Term{Not(v.L[0])}})
	case token.SUB:
		if isFloat(in.Type()) {
			x.setVal(fr, in, Value{T: in.Type(), L: []Term{x.floatUn("neg", v.L[0])}})
			return
		}
		x.setVal(fr, in, Value{T: in.Type(), L: []Term{app(v.L[0].Sort, "bvneg", v.L[0])}})
	case token.XOR:
		x.setVal(fr, in, Value{T: in.Type(), L: []Term{app(v.L[0].Sort, "bvnot", v.L[0])}})
	case token.ARROW:
		x.C.Abstracted["channel receive (havoc of value)"]++
		x.setVal(fr, in, x.freshValue(s, "recv", in.Type()))
	default:
		unsup("unop %s", in.Op)
	}
}

func (x *Exec) floatLit(f float64, w int) Term {
	// floats are opaque bit patterns; literals are distinct uninterpreted constants per value
	name := fmt.Sprintf("flt_%d_%s", w, sanitize(fmt.Sprintf("%g", f)))
	if f == 0 {
		return BVLitI(w, 0)
	}
	return x.C.Declare(name, BV(w))
}

func (x *Exec) floatUn(op string, a Term) Term {
	name := fmt.Sprintf("f%s_%d", op, a.Sort.Width())
	x.C.DeclareFun(name, []Sort{a.Sort}, a.Sort)
	x.C.Abstracted["floating point (uninterpreted)"]++
	return app(a.Sort, name, a)
}

func (x *Exec) floatBin(op string, a, b Term, ret Sort) Term {
	name := fmt.Sprintf("f%s_%d", op, a.Sort.Width())
	x.C.DeclareFun(name, []Sort{a.Sort, b.Sort}, ret)
	x.C.Abstracted["floating point (uninterpreted)"]++
	return app(ret, name, a, b)
}

func (x *Exec) binop(fr *frame, s *State, op token.Token, a, b Value, rt types.Type, pos token.Pos) Value {
	one := func(t Term) Value { return Value{T: rt, L: []Term{t}} }
	at := a.T
	switch {
	case isInteger(at) && (op == token.SHL || op == token.SHR):
		w := a.L[0].Sort.Width()
		cnt := b.L[0]
		cw := cnt.Sort.Width()
		// Go: shift count is unsigned or (checked) non-negative; count >= width gives 0 / sign fill
		if isSigned(b.T) && x.safety {
			x.C.Oblige(x.oblName(fr.fn, "shift"), "shift", x.pos(pos), "shift count is non-negative", s.Reach,
				BVCmp("bvsge", cnt, BVLitI(cw, 0)))
		}
		var c2 Term
		big := False
		if cw > w {
			big = BVCmp("bvuge", cnt, BVLitI(cw, int64(w)))
			c2 = Resize(cnt, w, false)
		} else {
			c2 = Resize(cnt, w, false)
			if cw == w || (1<<uint(cw)) > w {
				big = BVCmp("bvuge", c2, BVLitI(w, int64(w)))
			}
		}
		switch op {
		case token.SHL:
			return one(Ite(big, BVLitI(w, 0), BVOp("bvshl", a.L[0], c2)))
		default:
			if isSigned(at) {
				return one(Ite(big, BVOp("bvashr", a.L[0], BVLitI(w, int64(w-1))), BVOp("bvashr", a.L[0], c2)))
			}
			return one(Ite(big, BVLitI(w, 0), BVOp("bvlshr", a.L[0], c2)))
		}
	case isInteger(at):
		x0, y0 := a.L[0], b.L[0]
		sg := isSigned(at)
		switch op {
		case token.ADD:
			return one(BVOp("bvadd", x0, y0))
		case token.SUB:
			return one(BVOp("bvsub", x0, y0))
		case token.MUL:
			return one(x.mulTerm(x0, y0))
		case token.QUO, token.REM:
			if x.safety {
				x.C.Oblige(x.oblName(fr.fn, "divzero"), "divzero", x.pos(pos), "divisor is not zero", s.Reach,
					Not(Eq(y0, BVLitI(y0.Sort.Width(), 0))))
			}
			if q, r, ok := x.divByConst(x0, y0, sg); ok {
				if op == token.QUO {
					return one(q)
				}
				return one(r)
			}
			o := map[bool]map[token.Token]string{true: {token.QUO: "bvsdiv", token.REM: "bvsrem"}, false: {token.QUO: "bvudiv", token.REM: "bvurem"}}[sg][op]
			return one(BVOp(o, x0, y0))
		case token.AND:
			return one(BVOp("bvand", x0, y0))
		case token.OR:
			return one(BVOp("bvor", x0, y0))
		case token.XOR:
			return one(BVOp("bvxor", x0, y0))
		case token.AND_NOT:
			return one(BVOp("bvand", x0, app(y0.Sort, "bvnot", y0)))
		case token.EQL:
			return one(Eq(x0, y0))
		case token.NEQ:
			return one(Not(Eq(x0, y0)))
		case token.LSS, token.LEQ, token.GTR, token.GEQ:
			o := map[token.Token]string{token.LSS: "lt", token.LEQ: "le", token.GTR: "gt", token.GEQ: "ge"}[op]
			if sg {
				return one(BVCmp("bvs"+o, x0, y0))
			}
			return one(BVCmp("bvu"+o, x0, y0))
		}
	case isBool(at):
		switch op {
		case token.EQL:
			return one(Eq(a.L[0], b.L[0]))
		case token.NEQ:
			return one(Not(Eq(a.L[0], b.L[0])))
		case token.LAND:
			return one(And(a.L[0], b.L[0]))
		case token.LOR:
			return one(Or(a.L[0], b.L[0]))
		}
	case isString(at):
		switch op {
		case token.EQL:
			return one(Eq(a.L[0], b.L[0]))
		case token.NEQ:
			return one(Not(Eq(a.L[0], b.L[0])))
		case token.ADD:
			r := app(SStr, "sx.cat", a.L[0], b.L[0])
			x.C.Assume(Implies(s.Reach, Eq(app(SBV64, "sx.len", r), BVOp("bvadd", app(SBV64, "sx.len", a.L[0]), app(SBV64, "sx.len", b.L[0])))))
			return one(r)
		case token.LSS:
			return one(app(SBool, "sx.lt", a.L[0], b.L[0]))
		case token.GTR:
			return one(app(SBool, "sx.lt", b.L[0], a.L[0]))
		case token.LEQ:
			return one(Not(app(SBool, "sx.lt", b.L[0], a.L[0])))
		case token.GEQ:
			return one(Not(app(SBool, "sx.lt", a.L[0], b.L[0])))
		}
	case isFloat(at):
		switch op {
		case token.ADD, token.SUB, token.MUL, token.QUO:
			o := map[token.Token]string{token.ADD: "add", token.SUB: "sub", token.MUL: "mul", token.QUO: "div"}[op]
			return one(x.floatBin(o, a.L[0], b.L[0], a.L[0].Sort))
		case token.EQL, token.NEQ, token.LSS, token.LEQ, token.GTR, token.GEQ:
			o := map[token.Token]string{token.EQL: "eq", token.NEQ: "ne", token.LSS: "lt", token.LEQ: "le", token.GTR: "gt", token.GEQ: "ge"}[op]
			return one(x.floatBin(o, a.L[0], b.L[0], SBool))
		}
	default:
		// pointers, interfaces, structs, arrays, chans, maps(nil), funcs(nil): leafwise equality
		if op == token.EQL || op == token.NEQ {
			if a.Loc != nil || b.Loc != nil {
				unsup("comparison of pointers to locals")
			}
			if isInterface(at) != isInterface(b.T) {
				// mixed comparison: convert the concrete side
				if isInterface(at) {
					b = x.makeInterface(s, b, at)
				} else {
					a = x.makeInterface(s, a, b.T)
				}
			}
			if len(a.L) != len(b.L) {
				unsup("comparison of %s and %s", a.T, b.T)
			}
			if isInterface(a.T) {
				x.canonicalIface(s, a)
				x.canonicalIface(s, b)
			}
			var cs []Term
			for i := range a.L {
				cs = append(cs, Eq(a.L[i], b.L[i]))
			}
			eq := And(cs...)
			if op == token.NEQ {
				eq = Not(eq)
			}
			return one(eq)
		}
	}
	unsup("binop %s on %s", op, at)
	panic("unreachable")
}

func (x *Exec) convert(fr *frame, s *State, v Value, to types.Type, pos token.Pos) Value {
	from := v.T
	switch {
	case isInteger(from) && isInteger(to):
		w := x.E.intWidth(to.Underlying().(*types.Basic))
		return Value{T: to, L: []Term{Resize(v.L[0], w, isSigned(from))}}
	case isPointer(from) && isPointer(to):
		out := v
		out.T = to
		return out
	case isString(to) && isInteger(from):
		x.C.DeclareFun("sx.fromrune", []Sort{SBV64}, SStr)
		return Value{T: to, L: []Term{app(SStr, "sx.fromrune", Resize(v.L[0], 64, isSigned(from)))}}
	case isString(to):
		if sl, ok := from.Underlying().(*types.Slice); ok && len(x.E.layout(sl.Elem())) == 1 && x.E.layout(sl.Elem())[0] == SBV8 {
			// string(bytes): fresh string whose bytes are the slice's
			r := x.C.Fresh("str", SStr)
			i := x.C.BoundVar("i", SBV64)
			h := x.heap(s, SBV8)
			x.C.Assume(Implies(s.Reach, And(Eq(app(SBV64, "sx.len", r), v.L[2]),
				Forall([]Term{i}, Implies(BVCmp("bvult", i, v.L[2]),
					Eq(app(SBV8, "sx.at", r, i), Select(Select(h, v.L[0], ObjSort(SBV8)), BVOp("bvadd", v.L[1], i), SBV8)))))))
			return Value{T: to, L: []Term{r}}
		}
		x.C.DeclareFun("sx.fromrunes", []Sort{SInt, SBV64, SBV64}, SStr)
		return Value{T: to, L: []Term{x.C.Fresh("str", SStr)}}
	case isString(from):
		if sl, ok := to.Underlying().(*types.Slice); ok && len(x.E.layout(sl.Elem())) == 1 && x.E.layout(sl.Elem())[0] == SBV8 {
			r := x.alloc(s, "bytes")
			ln := app(SBV64, "sx.len", v.L[0])
			h := x.heap(s, SBV8)
			obj := x.C.Fresh("obj", ObjSort(SBV8))
			i := x.C.BoundVar("i", SBV64)
			x.C.Assume(Implies(s.Reach, Forall([]Term{i}, Implies(BVCmp("bvult", i, ln), Eq(Select(obj, i, SBV8), app(SBV8, "sx.at", v.L[0], i))))))
			s.Heaps[SBV8] = x.C.Define("H", Store(h, r, obj))
			x.C.Assume(Implies(s.Reach, BVCmp("bvult", ln, BVLitI(64, 1<<40))))
			return Value{T: to, L: []Term{r, BVLitI(64, 0), ln, ln}}
		}
		// []rune(s)
		x.C.Abstracted["[]rune conversion (havoc)"]++
		return x.freshValue(s, "runes", to)
	case isFloat(from) || isFloat(to):
		tw := x.E.layout(to)[0]
		name := fmt.Sprintf("fconv_%s_%s", sanitize(from.Underlying().String()), sanitize(to.Underlying().String()))
		x.C.DeclareFun(name, []Sort{v.L[0].Sort}, tw)
		x.C.Abstracted["floating point (uninterpreted)"]++
		return Value{T: to, L: []Term{app(tw, name, v.L[0])}}
	}
	if types.Identical(from.Underlying(), to.Underlying()) {
		out := v
		out.T = to
		return out
	}
	unsup("conversion %s -> %s", from, to)
	panic("unreachable")
}

func (x *Exec) makeInterface(s *State, v Value, to types.Type) Value {
	if isInterface(v.T) {
		out := v
		out.T = to
		return out
	}
	if b, ok := v.T.Underlying().(*types.Basic); ok && b.Kind() == types.UntypedNil {
		return x.E.zero(to)
	}
	tag := IntLit(x.E.typeID(v.T))
	if isPointer(v.T) {
		if v.Loc != nil {
			unsup("pointer to local stored in interface")
		}
		return Value{T: to, L: []Term{tag, v.L[0], v.L[1]}}
	}
	// box the value: scalar payloads are boxed in a fresh immutable object whose
	// identity is a function of the payload, so equal payloads compare equal.
	ls := x.E.layout(v.T)
	if len(ls) == 1 && (ls[0].IsBV() || ls[0] == SBool) {
		// small scalars travel inside the interface value itself (ref -1, payload in the offset leaf)
		x.E.scalarTags[x.E.typeID(v.T)] = ls[0]
		var pay Term
		if ls[0] == SBool {
			pay = Ite(v.L[0], BVLitI(64, 1), BVLitI(64, 0))
		} else {
			pay = Resize(v.L[0], 64, false)
		}
		return Value{T: to, L: []Term{tag, IntLit(-1), pay}}
	}
	if len(ls) == 1 && ls[0] != SInt {
		name := "box_" + sanitize(string(ls[0]))
		x.C.DeclareFun(name, []Sort{ls[0]}, SInt)
		x.C.DeclareFun("un"+name, []Sort{SInt}, ls[0])
		r := app(SInt, name, v.L[0])
		// boxes live below zero so that they never alias allocated objects
		x.C.Assume(And(App(SBool, "<", r, IntLit(0)), Eq(app(ls[0], "un"+name, r), v.L[0])))
		return Value{T: to, L: []Term{tag, r, BVLitI(64, 0)}}
	}
	r := x.alloc(s, "box")
	x.storeAt(s, r, BVLitI(64, 0), v)
	return Value{T: to, L: []Term{tag, r, BVLitI(64, 0)}}
}

func (x *Exec) unbox(s *State, iface Value, t types.Type) Value {
	if isPointer(t) {
		return Value{T: t, L: []Term{iface.L[1], iface.L[2]}}
	}
	ls := x.E.layout(t)
	if len(ls) == 1 && (ls[0].IsBV() || ls[0] == SBool) {
		x.E.scalarTags[x.E.typeID(t)] = ls[0]
		x.canonicalIface(s, iface)
	}
	if len(ls) == 1 && ls[0] == SBool {
		return Value{T: t, L: []Term{Not(Eq(iface.L[2], BVLitI(64, 0)))}}
	}
	if len(ls) == 1 && ls[0].IsBV() {
		return Value{T: t, L: []Term{Resize(iface.L[2], ls[0].Width(), false)}}
	}
	if len(ls) == 1 && ls[0] != SInt {
		name := "box_" + sanitize(string(ls[0]))
		x.C.DeclareFun(name, []Sort{ls[0]}, SInt)
		x.C.DeclareFun("un"+name, []Sort{SInt}, ls[0])
		return Value{T: t, L: []Term{app(ls[0], "un"+name, iface.L[1])}}
	}
	return x.loadAt(s, t, iface.L[1], iface.L[2])
}

func (x *Exec) typeAssert(fr *frame, s *State, in *ssa.TypeAssert) {
	v := x.operand(fr, s, in.X)
	at := in.AssertedType
	var ok Term
	var val Value
	if isInterface(at) {
		// interface-to-interface: succeeds for some non-nil dynamic types
		name := "implements_" + sanitize(types.TypeString(at, nil))
		x.C.DeclareFun(name, []Sort{SInt}, SBool)
		ok = And(Not(Eq(v.L[0], IntLit(0))), app(SBool, name, v.L[0]))
		if types.AssignableTo(in.X.Type(), at) {
			ok = Not(Eq(v.L[0], IntLit(0)))
		}
		val = Value{T: at, L: append([]Term(nil), v.L...)}
	} else {
		ok = Eq(v.L[0], IntLit(x.E.typeID(at)))
		val = x.unbox(s, v, at)
	}
	if in.CommaOk {
		z := x.E.zero(at)
		out := Value{T: in.Type()}
		for i := range val.L {
			out.L = append(out.L, Ite(ok, val.L[i], z.L[i]))
		}
		out.L = append(out.L, ok)
		x.setVal(fr, in, out)
		return
	}
	fromPool := false
	if c, isCall := in.X.(*ssa.Call); isCall {
		if callee := c.Call.StaticCallee(); callee != nil && x.E.fnKey(callee) == "(*sync.Pool).Get" {
			fromPool = true
		}
	}
	if x.safety && fromPool {
		// pool discipline: what a pool hands out has the type its New function and every Put give it
		x.C.Trusted["a type assertion applied directly to the result of (*sync.Pool).Get is assumed to succeed (every Put and the pool's New use that type; not checked)"] = true
		x.C.Assume(Implies(s.Reach, ok))
	} else if x.safety {
		x.C.Oblige(x.oblName(fr.fn, "typeassert"), "typeassert", x.pos(in.Pos()), "type assertion succeeds", s.Reach, ok)
	} else {
		x.C.Assume(Implies(s.Reach, ok))
	}
	x.setVal(fr, in, val)
}

// elemInfo describes the element type and stride of an indexable.
func (x *Exec) stride(elem types.Type) int64 { return x.E.strideOf(elem) }

func (x *Exec) idx64(fr *frame, s *State, v ssa.Value) Term {
	i := x.operand(fr, s, v)
	return Resize(i.L[0], 64, isSigned(v.Type()))
}

func (x *Exec) boundsCheck(fr *frame, s *State, idx, ln Term, pos token.Pos, what string) {
	if !x.safety {
		return
	}
	x.C.Oblige(x.oblName(fr.fn, "index"), "bounds", x.pos(pos), what+": index in range", s.Reach, BVCmp("bvult", idx, ln))
}

func mulOff(idx Term, stride int64) Term {
	if stride == 1 {
		return idx
	}
	return BVOp("bvmul", idx, BVLitI(64, stride))
}

func (x *Exec) indexAddr(fr *frame, s *State, in *ssa.IndexAddr) {
	base := x.operand(fr, s, in.X)
	idx := x.idx64(fr, s, in.Index)
	switch u := in.X.Type().Underlying().(type) {
	case *types.Slice:
		x.noteSlice(s, base)
		x.boundsCheck(fr, s, idx, base.L[2], in.Pos(), "slice")
		x.setVal(fr, in, Value{T: in.Type(), L: []Term{base.L[0], BVOp("bvadd", base.L[1], mulOff(idx, x.stride(u.Elem())))}, NN: true})
	case *types.Pointer:
		arr := u.Elem().Underlying().(*types.Array)
		x.boundsCheck(fr, s, idx, BVLitI(64, arr.Len()), in.Pos(), "array")
		if base.Loc != nil {
			unsup("indexing into local array cell")
		}
		x.nilCheck(fr, s, base, in.Pos(), "array pointer")
		x.setVal(fr, in, Value{T: in.Type(), L: []Term{base.L[0], BVOp("bvadd", base.L[1], mulOff(idx, x.stride(arr.Elem())))}, NN: true})
	default:
		unsup("IndexAddr on %s", in.X.Type())
	}
}

func (x *Exec) index(fr *frame, s *State, in *ssa.Index) {
	base := x.operand(fr, s, in.X)
	idx := x.idx64(fr, s, in.Index)
	switch u := in.X.Type().Underlying().(type) {
	case *types.Array:
		x.boundsCheck(fr, s, idx, BVLitI(64, u.Len()), in.Pos(), "array")
		n := len(x.E.layout(u.Elem()))
		out := Value{T: in.Type(), L: make([]Term, n)}
		for l := 0; l < n; l++ {
			t := base.L[l]
			for k := int64(1); k < u.Len(); k++ {
				t = Ite(Eq(idx, BVLitI(64, k)), base.L[int(k)*n+l], t)
			}
			out.L[l] = t
		}
		x.setVal(fr, in, out)
	case *types.Basic: // string
		ln := app(SBV64, "sx.len", base.L[0])
		x.boundsCheck(fr, s, idx, ln, in.Pos(), "string")
		x.setVal(fr, in, Value{T: in.Type(), L: []Term{app(SBV8, "sx.at", base.L[0], idx)}})
	default:
		unsup("Index on %s", in.X.Type())
	}
}

func (x *Exec) slice(fr *frame, s *State, in *ssa.Slice) {
	base := x.operand(fr, s, in.X)
	zero := BVLitI(64, 0)
	var lo, hi, mx Term
	if in.Low != nil {
		lo = x.idx64(fr, s, in.Low)
	} else {
		lo = zero
	}
	chk := func(c Term, what string) {
		if x.safety {
			x.C.Oblige(x.oblName(fr.fn, "slice"), "bounds", x.pos(in.Pos()), what, s.Reach, c)
		}
	}
	switch u := in.X.Type().Underlying().(type) {
	case *types.Basic: // string
		ln := app(SBV64, "sx.len", base.L[0])
		if in.High != nil {
			hi = x.idx64(fr, s, in.High)
		} else {
			hi = ln
		}
		chk(And(BVCmp("bvule", lo, hi), BVCmp("bvule", hi, ln)), "string slice: 0 <= low <= high <= len")
		r := app(SStr, "sx.sub", base.L[0], lo, hi)
		if lo.S == zero.S && in.High == nil {
			r = base.L[0]
		}
		x.C.Assume(Implies(s.Reach, Eq(app(SBV64, "sx.len", r), BVOp("bvsub", hi, lo))))
		if x.C.noDefine == 0 {
			i := x.C.BoundVar("i", SBV64)
			x.C.Assume(Implies(s.Reach, Forall([]Term{i}, Implies(BVCmp("bvult", i, BVOp("bvsub", hi, lo)),
				Eq(app(SBV8, "sx.at", r, i), app(SBV8, "sx.at", base.L[0], BVOp("bvadd", lo, i)))))))
		}
		x.setVal(fr, in, Value{T: in.Type(), L: []Term{r}})
		return
	case *types.Slice:
		ref, off, ln, cp := base.L[0], base.L[1], base.L[2], base.L[3]
		if in.High != nil {
			hi = x.idx64(fr, s, in.High)
		} else {
			hi = ln
		}
		if in.Max != nil {
			mx = x.idx64(fr, s, in.Max)
			chk(And(BVCmp("bvule", lo, hi), BVCmp("bvule", hi, mx), BVCmp("bvule", mx, cp)), "slice: 0 <= low <= high <= max <= cap")
		} else {
			mx = cp
			chk(And(BVCmp("bvule", lo, hi), BVCmp("bvule", hi, cp)), "slice: 0 <= low <= high <= cap")
		}
		st := x.stride(u.Elem())
		x.setVal(fr, in, Value{T: in.Type(), L: []Term{ref, BVOp("bvadd", off, mulOff(lo, st)), BVOp("bvsub", hi, lo), BVOp("bvsub", mx, lo)}})
		return
	case *types.Pointer:
		arr := u.Elem().Underlying().(*types.Array)
		n := BVLitI(64, arr.Len())
		if base.Loc != nil {
			unsup("slicing a local array cell")
		}
		x.nilCheck(fr, s, base, in.Pos(), "array pointer")
		if in.High != nil {
			hi = x.idx64(fr, s, in.High)
		} else {
			hi = n
		}
		if in.Max != nil {
			mx = x.idx64(fr, s, in.Max)
		} else {
			mx = n
		}
		chk(And(BVCmp("bvule", lo, hi), BVCmp("bvule", hi, mx), BVCmp("bvule", mx, n)), "array slice: 0 <= low <= high <= max <= len")
		st := x.stride(arr.Elem())
		x.setVal(fr, in, Value{T: in.Type(), L: []Term{base.L[0], BVOp("bvadd", base.L[1], mulOff(lo, st)), BVOp("bvsub", hi, lo), BVOp("bvsub", mx, lo)}})
		return
	}
	unsup("Slice on %s", in.X.Type())
}

// ---------------------------------------------------------------------------
// maps

func (x *Exec) mapKeySort(mt *types.Map) Sort {
	ks := x.E.layout(mt.Key())
	if _, isPtr := mt.Key().Underlying().(*types.Pointer); isPtr {
		x.C.Trusted["map keys of pointer type are identified by the object they point to (all keys point to the start of distinct objects)"] = true
		return SInt
	}
	if len(ks) != 1 {
		unsup("map with composite key %s", mt.Key())
	}
	return ks[0]
}

func (x *Exec) mapLookup(s *State, m Value, key Value, mt *types.Map) (Value, Term) {
	k := x.mapKeySort(mt)
	dom := x.mapDom(s, k)
	inDom := And(Not(Eq(m.L[0], IntLit(0))), Select(Select(dom, m.L[0], Sort("(Array "+string(k)+" Bool)")), key.L[0], SBool))
	vs := x.E.layout(mt.Elem())
	z := x.E.zero(mt.Elem())
	val := Value{T: mt.Elem(), L: make([]Term, len(vs))}
	for i, vsrt := range vs {
		mv := x.mapVal(s, k, vsrt, i)
		raw := Select(Select(mv, m.L[0], Sort("(Array "+string(k)+" "+string(vsrt)+")")), key.L[0], vsrt)
		val.L[i] = Ite(inDom, raw, z.L[i])
	}
	return val, inDom
}

func (x *Exec) lookup(fr *frame, s *State, in *ssa.Lookup) {
	base := x.operand(fr, s, in.X)
	if mt, ok := in.X.Type().Underlying().(*types.Map); ok {
		key := x.operand(fr, s, in.Index)
		if isInterface(mt.Key()) && !isInterface(key.T) {
			key = x.makeInterface(s, key, mt.Key())
		}
		if tbl := x.E.constTable(in.X); tbl != nil && len(key.L) == 1 {
			// lookup in a package-level map that is a constant table (see constTable)
			x.C.Trusted["package-level maps that are only ever read (initialised from a literal with constant keys and values, never updated, never passed on) are treated as the constant table of their initialiser"] = true
			zero := x.E.zero(mt.Elem())
			res := Value{T: mt.Elem(), L: append([]Term(nil), zero.L...)}
			found := False
			for i := len(tbl) - 1; i >= 0; i-- {
				kv := x.operand(fr, s, tbl[i][0])
				vv := x.operand(fr, s, tbl[i][1])
				if len(kv.L) != 1 || len(vv.L) != len(res.L) {
					unsup("constant table entry shape")
				}
				hit := Eq(key.L[0], kv.L[0])
				for j := range res.L {
					res.L[j] = Ite(hit, vv.L[j], res.L[j])
				}
				found = Or(hit, found)
			}
			if in.CommaOk {
				x.setVal(fr, in, Value{T: in.Type(), L: append(append([]Term(nil), res.L...), found)})
			} else {
				x.setVal(fr, in, res)
			}
			return
		}
		val, ok := x.mapLookup(s, base, key, mt)
		x.assumeTypeInv(s, val)
		if in.CommaOk {
			out := Value{T: in.Type(), L: append(append([]Term(nil), val.L...), ok)}
			x.setVal(fr, in, out)
		} else {
			x.setVal(fr, in, val)
		}
		return
	}
	// string index
	idx := x.idx64(fr, s, in.Index)
	ln := app(SBV64, "sx.len", base.L[0])
	x.boundsCheck(fr, s, idx, ln, in.Pos(), "string")
	x.setVal(fr, in, Value{T: in.Type(), L: []Term{app(SBV8, "sx.at", base.L[0], idx)}})
}

func (x *Exec) mapStore(s *State, m Value, key, val Value, mt *types.Map) {
	k := x.mapKeySort(mt)
	dom := x.mapDom(s, k)
	ds := Sort("(Array " + string(k) + " Bool)")
	s.MapDom[k] = x.C.Define("MD", Store(dom, m.L[0], Store(Select(dom, m.L[0], ds), key.L[0], True)))
	for i, vsrt := range x.E.layout(mt.Elem()) {
		mv := x.mapVal(s, k, vsrt, i)
		vs := Sort("(Array " + string(k) + " " + string(vsrt) + ")")
		s.MapVal[mapValKey(k, vsrt, i)] = x.C.Define("MV", Store(mv, m.L[0], Store(Select(mv, m.L[0], vs), key.L[0], val.L[i])))
	}
}

func (x *Exec) mapUpdate(fr *frame, s *State, in *ssa.MapUpdate) {
	m := x.operand(fr, s, in.Map)
	mt := in.Map.Type().Underlying().(*types.Map)
	key := x.operand(fr, s, in.Key)
	val := x.operand(fr, s, in.Value)
	if x.safety {
		x.C.Oblige(x.oblName(fr.fn, "nilmap"), "nil", x.pos(in.Pos()), "assignment to entry in non-nil map", s.Reach, Not(Eq(m.L[0], IntLit(0))))
	}
	if isInterface(mt.Key()) && !isInterface(key.T) {
		key = x.makeInterface(s, key, mt.Key())
	}
	if isInterface(mt.Elem()) && !isInterface(val.T) {
		val = x.makeInterface(s, val, mt.Elem())
	}
	x.frameCheckMap(fr, s, m.L[0], in.Pos())
	x.mapStore(s, m, key, val, mt)
}

// rangeInit/next: iteration over maps and strings yields arbitrary elements
// (order and termination are not modelled; loops need invariants).
func (x *Exec) rangeInit(fr *frame, s *State, in *ssa.Range) {
	v := x.operand(fr, s, in.X)
	fr.vals[in] = Value{T: in.Type(), L: v.L}
	if mt, ok := in.X.Type().Underlying().(*types.Map); ok {
		if ks := x.E.layout(mt.Key()); len(ks) == 1 {
			if s.Iter == nil {
				s.Iter = map[*ssa.Range]Term{}
			}
			srt := Sort("(Array " + string(ks[0]) + " Bool)")
			s.Iter[in] = Term{"((as const " + string(srt) + ") false)", srt}
		}
	}
}

func (x *Exec) next(fr *frame, s *State, in *ssa.Next) {
	it := in.Iter.(*ssa.Range)
	coll := x.operand(fr, s, it.X)
	tup := in.Type().(*types.Tuple)
	ok := x.C.Fresh("next_ok", SBool)
	out := Value{T: in.Type(), L: []Term{ok}}
	if in.IsString {
		k := x.freshValue(s, "rk", tup.At(1).Type())
		r := x.freshValue(s, "rv", tup.At(2).Type())
		ln := app(SBV64, "sx.len", coll.L[0])
		x.C.Assume(Implies(And(s.Reach, ok), BVCmp("bvult", k.L[0], ln)))
		out.L = append(out.L, k.L...)
		out.L = append(out.L, r.L...)
		x.C.Abstracted["range over string (arbitrary rune order)"]++
	} else {
		mt := it.X.Type().Underlying().(*types.Map)
		k := x.freshValue(s, "mk", mt.Key())
		val, inDom := x.mapLookup(s, coll, k, mt)
		x.C.Assume(Implies(And(s.Reach, ok), inDom))
		if seen, tracked := s.Iter[it]; tracked && len(k.L) == 1 {
			// every key is produced once, and the iteration ends only when every key of the map
			// has been produced (the map is not modified while it is ranged over: Go leaves the
			// iteration of entries added meanwhile unspecified)
			x.C.Assume(Implies(And(s.Reach, ok), Not(Select(seen, k.L[0], SBool))))
			q := x.C.BoundVar("k", k.L[0].Sort)
			_, qin := x.mapLookup(s, coll, Value{T: mt.Key(), L: []Term{q}}, mt)
			x.C.Assume(Implies(And(s.Reach, Not(ok)), Forall([]Term{q}, Implies(qin, Select(seen, q, SBool)))))
			s.Iter[it] = x.C.Define("iterseen", Ite(ok, Store(seen, k.L[0], True), seen))
			x.C.Trusted["range over a map produces every key exactly once (the map is not modified during the loop)"] = true
		}
		kt, vt := tup.At(1).Type(), tup.At(2).Type()
		if len(x.E.layout(kt)) > 0 {
			out.L = append(out.L, k.L...)
		}
		if len(x.E.layout(vt)) > 0 {
			out.L = append(out.L, val.L...)
		}
		x.C.Abstracted["range over map (arbitrary order, no completeness)"]++
	}
	x.setVal(fr, in, out)
}

// canonicalIface: an interface value whose dynamic type is a small scalar has the
// canonical representation (ref -1, zero-extended payload), as makeInterface builds it.
func (x *Exec) canonicalIface(s *State, v Value) {
	if x.C.noDefine > 0 || len(v.L) != 3 {
		return
	}
	var ids []int64
	for id := range x.E.scalarTags {
		ids = append(ids, id)
	}
	sort.Slice(ids, func(i, j int) bool { return ids[i] < ids[j] })
	for _, id := range ids {
		srt := x.E.scalarTags[id]
		c := Eq(v.L[1], IntLit(-1))
		if srt == SBool {
			c = And(c, BVCmp("bvule", v.L[2], BVLitI(64, 1)))
		} else if w := srt.Width(); w < 64 {
			c = And(c, BVCmp("bvult", v.L[2], BVLitI(64, int64(1)<<uint(w))))
		}
		x.C.Assume(Implies(Eq(v.L[0], IntLit(id)), c))
	}
}

// divByConst encodes division and remainder by a positive constant through their
// defining equations (x = q*c + r with the sign/size conditions of Go's
// truncated division) instead of a bit-level divider, which the solvers cannot
// reason about at 64 bits. The encoding is exact: the true quotient and
// remainder satisfy the constraints and no other pair does (DESIGN section 12).
func (x *Exec) divByConst(a, c Term, signed bool) (q, r Term, ok bool) {
	if x.C.noDefine > 0 || !strings.HasPrefix(c.S, "#") {
		return Term{}, Term{}, false
	}
	w := c.Sort.Width()
	cv := new(big.Int)
	if strings.HasPrefix(c.S, "#x") {
		cv.SetString(c.S[2:], 16)
	} else {
		cv.SetString(c.S[2:], 2)
	}
	max := new(big.Int).Lsh(big.NewInt(1), uint(w))
	if signed {
		max.Rsh(max, 1)
	}
	if cv.Sign() <= 0 || cv.Cmp(max) >= 0 {
		return Term{}, Term{}, false
	}
	if cv.Cmp(big.NewInt(1)) == 0 {
		return a, BVLitI(w, 0), true
	}
	a = x.C.Canon("dividend", a)
	key := fmt.Sprintf("%v|%s|%s", signed, a.S, c.S)
	if qr, ok := x.divCache[key]; ok {
		return qr[0], qr[1], true
	}
	pre := "u"
	if signed {
		pre = "s"
	}
	x.C.DeclareFun(fmt.Sprintf("%sdivc%d", pre, w), []Sort{a.Sort, a.Sort}, a.Sort)
	x.C.DeclareFun(fmt.Sprintf("%sremc%d", pre, w), []Sort{a.Sort, a.Sort}, a.Sort)
	q = app(a.Sort, fmt.Sprintf("%sdivc%d", pre, w), a, c)
	r = app(a.Sort, fmt.Sprintf("%sremc%d", pre, w), a, c)
	zero := BVLitI(w, 0)
	if signed {
		maxS := new(big.Int).Sub(max, big.NewInt(1)) // 2^(w-1)-1
		qmax := new(big.Int).Quo(maxS, cv)
		qmin := new(big.Int).Neg(new(big.Int).Quo(max, cv))
		x.C.Assume(And(Eq(a, BVOp("bvadd", x.mulTerm(q, c), r)),
			BVCmp("bvsle", BVLit(w, qmin), q), BVCmp("bvsle", q, BVLit(w, qmax)),
			Ite(BVCmp("bvsge", a, zero), And(BVCmp("bvsge", r, zero), BVCmp("bvslt", r, c)),
				And(BVCmp("bvsle", r, zero), BVCmp("bvsgt", r, app(c.Sort, "bvneg", c))))))
	} else {
		maxU := new(big.Int).Sub(max, big.NewInt(1))
		qmax := new(big.Int).Quo(maxU, cv)
		qc := x.mulTerm(q, c)
		x.C.Assume(And(BVCmp("bvule", q, BVLit(w, qmax)), BVCmp("bvule", qc, a), Eq(r, BVOp("bvsub", a, qc)), BVCmp("bvult", r, c)))
	}
	x.divCache[key] = [2]Term{q, r}
	return q, r, true
}

// mulTerm: multiplication by a constant goes through an uninterpreted wrapper
// that is pinned to bvmul, so that the solvers get congruence (mul(a,c) = mul(b,c)
// from a = b) without having to reason about the multiplier circuit.
func (x *Exec) mulTerm(a, b Term) Term {
	if strings.HasPrefix(a.S, "#") && !strings.HasPrefix(b.S, "#") {
		a, b = b, a
	}
	w := a.Sort.Width()
	if x.C.noDefine > 0 || !strings.HasPrefix(b.S, "#") || strings.HasPrefix(a.S, "#") || w < 32 {
		return BVOp("bvmul", a, b)
	}
	name := fmt.Sprintf("mulc%d", w)
	x.C.DeclareFun(name, []Sort{a.Sort, a.Sort}, a.Sort)
	a = x.C.Canon("factor", a)
	t := app(a.Sort, name, a, b)
	key := "mul|" + t.S
	if !x.mulSeen[key] {
		x.mulSeen[key] = true
		x.C.Assume(Eq(t, BVOp("bvmul", a, b)))
	}
	return t
}

// onlyCalled: every load of the local function variable is used only as the callee of a call.
func onlyCalled(a *ssa.Alloc) bool {
	for _, r := range *a.Referrers() {
		switch u := r.(type) {
		case *ssa.DebugRef:
		case *ssa.Store:
			if u.Addr != a {
				return false
			}
		case *ssa.UnOp:
			if u.Op != token.MUL {
				return false
			}
			for _, lr := range *u.Referrers() {
				switch c := lr.(type) {
				case *ssa.DebugRef:
				case *ssa.Call:
					if c.Call.Value != u {
						return false
					}
					for _, arg := range c.Call.Args {
						if arg == u {
							return false
						}
					}
				case *ssa.Defer:
					if c.Call.Value != u {
						return false
					}
				default:
					return false
				}
			}
		default:
			return false
		}
	}
	return true
}

// ---- frame discipline (Dafny style): inside a unit whose contract has a
// modifies clause, every heap write must target a location the clause names or
// an object allocated during the call. In exchange, every location outside the
// clause may be assumed to hold its entry value wherever the heap is havocked.

func (x *Exec) allowedLoc(ref, off Term) Term {
	return Or(App(SBool, ">=", ref, x.entry.Frontier), inTargets(x.frameTs, ref, off))
}

func (x *Exec) frameCheckLoc(fr *frame, s *State, ref, off Term, n int64, pos token.Pos) {
	if !x.frameOn || x.C.noDefine > 0 {
		return
	}
	var cs []Term
	for i := int64(0); i < n; i++ {
		cs = append(cs, x.allowedLoc(ref, offAdd(off, i)))
	}
	x.C.Oblige(x.oblName(fr.fn, "frame"), "frame", x.pos(pos), "write stays inside the modifies clause (or a fresh object)", s.Reach, And(cs...))
}

// frameCheckRange: a write to leaves [off, off+len) of object ref.
func (x *Exec) frameCheckRange(fr *frame, s *State, ref, off, ln Term, pos token.Pos, what string) {
	if !x.frameOn || x.C.noDefine > 0 {
		return
	}
	o := x.C.BoundVar("o", SBV64)
	prop := Or(App(SBool, ">=", ref, x.entry.Frontier),
		Forall([]Term{o}, Implies(BVCmp("bvult", BVOp("bvsub", o, off), ln), inTargets(x.frameTs, ref, o))))
	x.C.Oblige(x.oblName(fr.fn, "frame"), "frame", x.pos(pos), what+" stays inside the modifies clause (or a fresh object)", s.Reach, prop)
}

func (x *Exec) frameCheckObj(fr *frame, s *State, ref Term, pos token.Pos, what string) {
	if !x.frameOn || x.C.noDefine > 0 {
		return
	}
	var cs []Term
	cs = append(cs, App(SBool, ">=", ref, x.entry.Frontier))
	for _, t := range x.frameTs {
		if t.kind == "obj" {
			cs = append(cs, Eq(ref, t.ref))
		}
	}
	x.C.Oblige(x.oblName(fr.fn, "frame"), "frame", x.pos(pos), what+" stays inside the modifies clause (or a fresh object)", s.Reach, Or(cs...))
}

func (x *Exec) frameCheckMap(fr *frame, s *State, ref Term, pos token.Pos) {
	if !x.frameOn || x.C.noDefine > 0 {
		return
	}
	cs := []Term{App(SBool, ">=", ref, x.entry.Frontier)}
	for _, t := range x.frameTs {
		if t.kind == "maps" {
			cs = append(cs, Eq(ref, t.ref))
		}
	}
	x.C.Oblige(x.oblName(fr.fn, "frame"), "frame", x.pos(pos), "map write stays inside the modifies clause (or a fresh map)", s.Reach, Or(cs...))
}

func (x *Exec) frameCheckAll(fr *frame, s *State, pos token.Pos, what string) {
	if !x.frameOn || x.C.noDefine > 0 {
		return
	}
	x.C.Oblige(x.oblName(fr.fn, "frame"), "frame", x.pos(pos), what+" may write anything, but the unit has a modifies clause", s.Reach, False)
}

// assumeFrame: locations allocated at entry and outside the modifies clause
// still hold their entry values (justified by the per-write checks above).
func (x *Exec) assumeFrame(s *State, sorts []Sort) {
	if !x.frameOn || x.C.noDefine > 0 {
		return
	}
	for _, k := range sorts {
		if s.Heaps[k].S == x.entry.Heaps[k].S {
			continue
		}
		r := x.C.BoundVar("r", SInt)
		o := x.C.BoundVar("o", SBV64)
		x.C.Assume(Implies(s.Reach, Forall([]Term{r, o}, Implies(And(App(SBool, "<", IntLit(0), r), App(SBool, "<", r, x.entry.Frontier), Not(inTargets(x.frameTs, r, o))),
			Eq(Select(Select(s.Heaps[k], r, ObjSort(k)), o, k), Select(Select(x.entry.Heaps[k], r, ObjSort(k)), o, k))))))
	}
}

// constCapture: the variable captured as free variable idx of closure fn is written by
// no closure at all (only by the function that declares it), so it cannot change while
// an invocation of fn runs (each invocation of the declaring function has its own cell;
// data races are out of scope).
func constCapture(fn *ssa.Function, idx int, depth int) bool {
	parent := fn.Parent()
	if parent == nil || depth > 3 {
		return false
	}
	found := false
	for _, b := range parent.Blocks {
		for _, in := range b.Instrs {
			mc, ok := in.(*ssa.MakeClosure)
			if !ok || mc.Fn != fn {
				continue
			}
			found = true
			switch v := mc.Bindings[idx].(type) {
			case *ssa.Alloc:
				for _, r := range *v.Referrers() {
					switch u := r.(type) {
					case *ssa.DebugRef, *ssa.Store:
						if st, ok := u.(*ssa.Store); ok && st.Addr != v {
							return false
						}
					case *ssa.UnOp:
						if u.Op != token.MUL {
							return false
						}
					case *ssa.MakeClosure:
						if !readsOnly(u.Fn.(*ssa.Function), u, v, 0) {
							return false
						}
					default:
						return false
					}
				}
			case *ssa.FreeVar:
				pi := -1
				for k, pf := range parent.FreeVars {
					if pf == v {
						pi = k
					}
				}
				if pi < 0 || !constCapture(parent, pi, depth+1) {
					return false
				}
				for _, r := range *v.Referrers() {
					switch u := r.(type) {
					case *ssa.DebugRef:
					case *ssa.UnOp:
						if u.Op != token.MUL {
							return false
						}
					case *ssa.MakeClosure:
						if !readsOnly(u.Fn.(*ssa.Function), u, v, 0) {
							return false
						}
					default:
						return false
					}
				}
			default:
				return false
			}
		}
	}
	return found
}

// readsOnly: inside closure fn (created by mc), every use of the free variable
// bound to v is a load (or a capture by a nested closure that itself only loads).
func readsOnly(fn *ssa.Function, mc *ssa.MakeClosure, v ssa.Value, depth int) bool {
	if depth > 3 {
		return false
	}
	for i, b := range mc.Bindings {
		if b != v {
			continue
		}
		fv := fn.FreeVars[i]
		for _, r := range *fv.Referrers() {
			switch u := r.(type) {
			case *ssa.DebugRef:
			case *ssa.UnOp:
				if u.Op != token.MUL {
					return false
				}
			case *ssa.MakeClosure:
				if !readsOnly(u.Fn.(*ssa.Function), u, fv, depth+1) {
					return false
				}
			default:
				return false
			}
		}
	}
	return true
}

// atSend checks the "atsend" region postconditions of the unit's contract with
// the value about to be sent bound to the name "sent".
func (x *Exec) atSend(fr *frame, s *State, sent Value, pos token.Pos) {
	if fr.contract == nil {
		return
	}
	for k, ac := range fr.contract.AtCalls {
		if ac.Callee != "<send>" {
			continue
		}
		env := x.invEnv(fr, s).with("sent", sent)
		ac.Hits++
		x.obligeKnown(env, fmt.Sprintf("%s#atsend%d.%d", x.C.Unit, k, x.bump(fr, fmt.Sprintf("atsend%d", k))), "atsend",
			x.pos(pos), "before the send: "+ac.Text, s.Reach, env.evalGoal(ac.Expr))
	}
}

// atReturn checks "atreturn" region postconditions at a return site (results are
// bound as in ensures clauses; sites where a named local is not in scope are skipped).
func (x *Exec) atReturn(fr *frame, s *State, rv []Value, pos token.Pos) {
	if fr.contract == nil {
		return
	}
	for k, ac := range fr.contract.AtCalls {
		if ac.Callee != "<return>" {
			continue
		}
		env := x.invEnv(fr, s)
		bindResults(env.names, fr.fn.Signature, rv)
		prop, ok := func() (t Term, ok bool) {
			defer func() {
				if r := recover(); r != nil {
					if u, isU := r.(unsupported); isU && strings.Contains(u.msg, "unknown identifier") {
						ok = false
						return
					}
					panic(r)
				}
			}()
			return env.evalGoal(ac.Expr), true
		}()
		if !ok {
			continue
		}
		ac.Hits++
		x.obligeKnown(env, fmt.Sprintf("%s#atreturn%d.%d", x.C.Unit, k, x.bump(fr, fmt.Sprintf("atreturn%d", k))), "atreturn",
			x.pos(pos), fmt.Sprintf("at this return (%s:%d): %s", filepath.Base(ac.File), ac.Line, ac.Text), s.Reach, prop)
	}
}

// leadsToReturn: the block (following unconditional jumps) ends in a return: such an edge
// out of a loop is a return statement, not a break.
func leadsToReturn(b *ssa.BasicBlock, depth int) bool {
	if depth > 4 || len(b.Instrs) == 0 {
		return false
	}
	switch last := b.Instrs[len(b.Instrs)-1].(type) {
	case *ssa.Return:
		return true
	case *ssa.Jump:
		_ = last
		return leadsToReturn(b.Succs[0], depth+1)
	}
	return false
}
