package core

import (
	"fmt"
	"go/types"
	"strings"

	"golang.org/x/tools/go/ssa"
)

// Recursive spec functions ("//@ rec"): a pure Go function over scalars, slices of scalars
// and pointers to (arrays of) scalars that may call itself. It becomes an SMT define-fun-rec
// whose parameters are the scalar arguments and, for every slice / pointer argument, the
// content array of the object it points into (plus offset, length, capacity). Passing the
// object's content instead of the whole heap keeps applications stable across writes to
// other objects. Termination of the Go function is by inspection (stated in the evidence).

type recParam struct {
	kind string // "scalar" | "slice" | "ptr"
	leaf Sort
	typ  types.Type
}

type recInfo struct {
	name   string
	params []recParam
	ret    Sort
	retT   types.Type
}

func (x *Exec) recParams(callee *ssa.Function) *recInfo {
	sig := callee.Signature
	if sig.Recv() != nil || sig.Results().Len() != 1 {
		unsup("rec spec function %s: must be a plain function with one result", callee)
	}
	ri := &recInfo{name: "rec." + sanitize(x.E.fnKey(callee)), retT: sig.Results().At(0).Type()}
	rl := x.E.layout(ri.retT)
	if len(rl) != 1 {
		unsup("rec spec function %s: scalar result required", callee)
	}
	ri.ret = rl[0]
	scalarLeaf := func(t types.Type) (Sort, bool) {
		if _, ok := t.Underlying().(*types.Basic); !ok {
			return "", false
		}
		l := x.E.layout(t)
		if len(l) != 1 {
			return "", false
		}
		return l[0], true
	}
	for i := 0; i < sig.Params().Len(); i++ {
		t := sig.Params().At(i).Type()
		if l, ok := scalarLeaf(t); ok {
			ri.params = append(ri.params, recParam{kind: "scalar", leaf: l, typ: t})
			continue
		}
		switch u := t.Underlying().(type) {
		case *types.Slice:
			if l, ok := scalarLeaf(u.Elem()); ok {
				ri.params = append(ri.params, recParam{kind: "slice", leaf: l, typ: t})
				continue
			}
		case *types.Pointer:
			el := u.Elem()
			if a, ok := el.Underlying().(*types.Array); ok {
				el = a.Elem()
			}
			if l, ok := scalarLeaf(el); ok {
				ri.params = append(ri.params, recParam{kind: "ptr", leaf: l, typ: t})
				continue
			}
		}
		unsup("rec spec function %s: parameter %d has unsupported type %s", callee, i, t)
	}
	return ri
}

// recDefine emits the definition once per unit.
func (x *Exec) recDefine(callee *ssa.Function) *recInfo {
	if x.recInfos == nil {
		x.recInfos = map[*ssa.Function]*recInfo{}
	}
	if ri, ok := x.recInfos[callee]; ok {
		return ri
	}
	ri := x.recParams(callee)
	x.recInfos[callee] = ri
	// formal parameters and the definition-time state
	st := &State{Reach: True, Cells: map[*ssa.Alloc]Value{}, Heaps: map[Sort]Term{}, MapDom: map[Sort]Term{}, MapVal: map[string]Term{},
		Frontier: IntLit(0), IterFrontier: IntLit(0), Ghost: map[string]Term{}, Base: "rec"}
	for _, k := range AllLeafSorts {
		st.Heaps[k] = x.C.Declare("rec.base."+sanitize(string(k)), Sort("(Array Int "+string(ObjSort(k))+")"))
	}
	var formals []string
	var args []Value
	for i, p := range ri.params {
		switch p.kind {
		case "scalar":
			n := fmt.Sprintf("p%d", i)
			formals = append(formals, fmt.Sprintf("(%s %s)", n, p.leaf))
			args = append(args, Value{T: p.typ, L: []Term{{n, p.leaf}}})
		case "slice", "ptr":
			ref := IntLit(int64(-(i + 1)))
			obj := Term{fmt.Sprintf("p%d_obj", i), ObjSort(p.leaf)}
			off := Term{fmt.Sprintf("p%d_off", i), SBV64}
			formals = append(formals, fmt.Sprintf("(%s %s)", obj.S, obj.Sort), fmt.Sprintf("(%s %s)", off.S, SBV64))
			st.Heaps[p.leaf] = Store(st.Heaps[p.leaf], ref, obj)
			if p.kind == "slice" {
				ln := Term{fmt.Sprintf("p%d_len", i), SBV64}
				cp := Term{fmt.Sprintf("p%d_cap", i), SBV64}
				formals = append(formals, fmt.Sprintf("(%s %s)", ln.S, SBV64), fmt.Sprintf("(%s %s)", cp.S, SBV64))
				args = append(args, Value{T: p.typ, L: []Term{ref, off, ln, cp}})
			} else {
				args = append(args, Value{T: p.typ, L: []Term{ref, off}, NN: true})
			}
		}
	}
	x.C.noDefine++
	savedSafety := x.safety
	x.safety = false
	exit, results, _ := x.run(callee, st, args, nil, x.E.contractFor(callee), true)
	x.safety = savedSafety
	x.C.noDefine--
	if exit == nil || len(results) != 1 || len(results[0].L) != 1 {
		unsup("rec spec function %s: no result", callee)
	}
	body := results[0].L[0]
	text := fmt.Sprintf("(define-fun-rec %s (%s) %s %s)", ri.name, strings.Join(formals, " "), ri.ret, body.S)
	x.C.recDefs = append(x.C.recDefs, recDefText{name: ri.name, text: text, syms: symList(body.S)})
	x.C.Trusted["recursive spec function "+x.E.fnKey(callee)+" terminates (by inspection; it is translated to define-fun-rec)"] = true
	return ri
}

// recCall: an application of a recursive spec function to argument values in state st.
func (x *Exec) recCall(st *State, callee *ssa.Function, args []Value) Value {
	var ri *recInfo
	if x.recInfos != nil && x.recInfos[callee] != nil {
		ri = x.recInfos[callee]
	} else {
		ri = x.recDefine(callee)
	}
	if len(args) != len(ri.params) {
		unsup("rec spec function %s: %d arguments for %d parameters", callee, len(args), len(ri.params))
	}
	var as []Term
	for i, p := range ri.params {
		a := args[i]
		switch p.kind {
		case "scalar":
			if a.Const != nil {
				a = x.constValue(p.typ, a.Const)
			}
			as = append(as, a.L[0])
		case "slice":
			if len(a.L) != 4 {
				unsup("rec spec function %s: argument %d is not a slice value", callee, i)
			}
			obj := Select(x.heap(st, p.leaf), a.L[0], ObjSort(p.leaf))
			if a.Obj != nil {
				obj = *a.Obj
			}
			as = append(as, obj, a.L[1], a.L[2], a.L[3])
		case "ptr":
			if a.Loc != nil {
				unsup("rec spec function %s: pointer to a local as argument %d", callee, i)
			}
			as = append(as, Select(x.heap(st, p.leaf), a.L[0], ObjSort(p.leaf)), a.L[1])
		}
	}
	return Value{T: ri.retT, L: []Term{app(ri.ret, ri.name, as...)}}
}
