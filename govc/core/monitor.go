package core

import "golang.org/x/tools/go/ssa"

// Monitor: a lock with a declared invariant over the fields it protects (see DESIGN §3.6).
type Monitor struct {
	Name string
}

func (e *Engine) parseMonitors() error { return nil }

func (x *Exec) monitorEntry(fn *ssa.Function, s *State, env *specEnv) {}
func (x *Exec) monitorExit(fn *ssa.Function, s *State, env *specEnv)  {}
