package core

import (
	"bytes"
	"context"
	"fmt"
	"os"
	"os/exec"
	"path/filepath"
	"runtime"
	"strings"
	"sync"
	"time"
)

type solverSpec struct {
	name string
	argv func(file string, timeoutMs int) []string
}

var solvers = []solverSpec{
	{"z3-new", func(f string, ms int) []string { return []string{"z3-new", fmt.Sprintf("-T:%d", ms/1000+1), f} }},
	{"z3", func(f string, ms int) []string { return []string{"z3", fmt.Sprintf("-T:%d", ms/1000+1), f} }},
	{"cvc5", func(f string, ms int) []string {
		return []string{"cvc5", "--incremental", fmt.Sprintf("--tlimit=%d", ms), f}
	}},
}

type solveResult struct {
	status string // unsat sat unknown
	solver string
	out    string
	ms     int64
	all    map[string]string
}

var tmpDir string
var tmpOnce sync.Once

func TmpDir() string {
	tmpOnce.Do(func() {
		d, err := os.MkdirTemp("", "govc-")
		if err != nil {
			panic(err)
		}
		tmpDir = d
	})
	return tmpDir
}

func CleanupTmp() {
	if tmpDir != "" {
		os.RemoveAll(tmpDir)
	}
}

var queryCounter int
var queryMu sync.Mutex

// runPortfolio races the installed solvers on one query text.
func runSolvers(query string, timeoutMs int, needAll bool, solvers []solverSpec) solveResult {
	queryMu.Lock()
	queryCounter++
	id := queryCounter
	queryMu.Unlock()
	file := filepath.Join(TmpDir(), fmt.Sprintf("q%d.smt2", id))
	// cvc5 wants produce-models before set-logic (it is), and rejects nothing we emit.
	if err := os.WriteFile(file, []byte(query), 0o644); err != nil {
		panic(err)
	}
	defer os.Remove(file)
	ctx, cancel := context.WithTimeout(context.Background(), time.Duration(timeoutMs+1500)*time.Millisecond)
	defer cancel()
	type one struct {
		name, status, out string
		ms                int64
	}
	ch := make(chan one, len(solvers))
	start := time.Now()
	for _, s := range solvers {
		s := s
		go func() {
			argv := s.argv(file, timeoutMs)
			cmd := exec.CommandContext(ctx, argv[0], argv[1:]...)
			var buf bytes.Buffer
			cmd.Stdout = &buf
			cmd.Stderr = &buf
			_ = cmd.Run()
			out := buf.String()
			first := strings.TrimSpace(strings.SplitN(out, "\n", 2)[0])
			st := "unknown"
			switch first {
			case "sat", "unsat":
				st = first
			}
			ch <- one{s.name, st, out, time.Since(start).Milliseconds()}
		}()
	}
	res := solveResult{status: "unknown", all: map[string]string{}}
	got := 0
	for got < len(solvers) {
		r := <-ch
		got++
		res.all[r.name] = r.status
		if r.status != "unknown" && res.status == "unknown" {
			res.status, res.solver, res.out, res.ms = r.status, r.name, r.out, r.ms
			if !needAll {
				cancel()
				// drain in background
				go func(n int) {
					for i := 0; i < n; i++ {
						<-ch
					}
				}(len(solvers) - got)
				return res
			}
		} else if res.status == "unknown" {
			res.out += "--- " + r.name + ":\n" + truncate(r.out, 400) + "\n"
		}
	}
	if res.status == "unknown" {
		res.ms = time.Since(start).Milliseconds()
	}
	return res
}

func truncate(s string, n int) string {
	if len(s) > n {
		return s[:n] + "..."
	}
	return s
}

// parseModel reads "((sym value))" lines as printed by get-value.
func parseModel(out string) map[string]string {
	m := map[string]string{}
	lines := strings.Split(out, "\n")
	for i := 1; i < len(lines); i++ {
		l := strings.TrimSpace(lines[i])
		if !strings.HasPrefix(l, "((") {
			continue
		}
		// accumulate until parentheses balance
		for depth(l) > 0 && i+1 < len(lines) {
			i++
			l += " " + strings.TrimSpace(lines[i])
		}
		l = strings.TrimSuffix(strings.TrimPrefix(l, "(("), "))")
		sp := splitTop(l)
		if len(sp) == 2 {
			m[sp[0]] = sp[1]
		}
	}
	return m
}

func depth(s string) int {
	d := 0
	for _, ch := range s {
		if ch == '(' {
			d++
		} else if ch == ')' {
			d--
		}
	}
	return d
}

// splitTop splits "a b" where a and b are s-expressions.
func splitTop(s string) []string {
	var parts []string
	d := 0
	start := -1
	for i := 0; i < len(s); i++ {
		ch := s[i]
		if ch == ' ' && d == 0 {
			if start >= 0 {
				parts = append(parts, s[start:i])
				start = -1
			}
			continue
		}
		if start < 0 {
			start = i
		}
		if ch == '(' {
			d++
		} else if ch == ')' {
			d--
		}
	}
	if start >= 0 {
		parts = append(parts, s[start:])
	}
	if len(parts) > 2 {
		parts = []string{parts[0], strings.Join(parts[1:], " ")}
	}
	return parts
}

// Solve discharges all obligations of a context in parallel.
func (c *Ctx) Solve(timeoutMs int, par int, crossCheck bool) {
	sem := make(chan struct{}, par)
	var wg sync.WaitGroup
	for _, o := range c.Obls {
		o := o
		wg.Add(1)
		sem <- struct{}{}
		go func() {
			defer wg.Done()
			defer func() { <-sem }()
			q := c.Query(o, true)
			var r solveResult
			if !crossCheck && !o.Vacuity {
				// stage 0: without the quantified assumptions (weaker premises: an unsat answer
				// is a proof; most obligations do not need them and the solvers are much faster)
				r0 := runSolvers(c.query(o, false, true), min(6000, timeoutMs), false, solvers[:1])
				if r0.status == "unsat" {
					r = r0
					r.solver += " (ground premises)"
				}
			}
			if o.Vacuity && !crossCheck {
				// reachability: look for a witness of the ground part first (quantified premises make
				// model finding slow; they only restrict further, see the fallback note below)
				r0 := runSolvers(c.QueryNoQuant(o), min(5000, timeoutMs), false, solvers[:2])
				if r0.status == "sat" || r0.status == "unsat" {
					r = r0
					if r0.status == "sat" {
						r.solver += " (ground part)"
					}
				}
			}
			if r.status != "unsat" && r.status != "sat" && !crossCheck {
				// stage 1: the fastest solver alone; stage 2: race all three
				r = runSolvers(q, min(2000, timeoutMs), false, solvers[:1])
			}
			if (r.status == "" || r.status == "unknown") && !(o.Vacuity && !crossCheck) {
				r = runSolvers(q, timeoutMs, crossCheck, solvers)
			}
			if r.status == "" {
				r.status = "unknown"
			}
			o.Status, o.Solver, o.Ms = r.status, r.solver, r.ms
			if r.status == "sat" {
				o.Model = parseModel(r.out)
			}
			if r.status != "unsat" {
				o.Output = truncate(r.out, 4000)
			}
			if r.status == "unknown" && !o.Vacuity && !strings.Contains(o.goal.S, "(exists ") {
				// look for a candidate counterexample without the quantified assumptions
				budget := min(5000, timeoutMs)
				if o.KnownClass != "" {
					// the recorded part of a known finding is expected to be satisfiable: look harder
					budget = 30000
				}
				r2 := runSolvers(c.QueryNoQuant(o), budget, false, solvers[:2])
				if r2.status == "sat" {
					o.Model = parseModel(r2.out)
					o.Candidate = true
					o.Output = "candidate counterexample (quantified assumptions dropped):\n" + truncate(r2.out, 3000)
				}
			}
			if crossCheck {
				seen := map[string]bool{}
				for _, st := range r.all {
					if st != "unknown" {
						seen[st] = true
					}
				}
				if len(seen) > 1 {
					o.Status = "unknown"
					o.Output = fmt.Sprintf("solver disagreement: %v", r.all)
				}
			}
		}()
	}
	wg.Wait()
	// Retry pass: an obligation that no solver decided while the others were running is
	// tried again alone with three times the budget. A time-out under CPU contention (several
	// checks running side by side) is not evidence of anything; only an obligation that stays
	// undecided with the machine to itself is reported.
	retries := 0
	waited := false
	for _, o := range c.Obls {
		if o.Status != "unknown" || o.Vacuity || o.KnownClass != "" || retries >= 6 {
			continue
		}
		if !waited {
			// "alone" only means something when the machine is not saturated by other checks:
			// wait (at most two minutes) for the load to drop below the number of cores
			waited = true
			waitForLoad(120 * time.Second)
		}
		if strings.HasPrefix(o.Output, "solver disagreement") {
			continue
		}
		retries++
		// the ground-premises form first (an unsat answer is a proof; the first pass gives it only
		// four seconds, which a loaded machine can eat), then the full query
		r := runSolvers(c.query(o, false, true), 2*timeoutMs, false, solvers)
		if r.status == "unsat" {
			r.solver += " (ground premises)"
		} else {
			r = runSolvers(c.Query(o, true), 4*timeoutMs, false, solvers)
		}
		if r.status == "unsat" || r.status == "sat" {
			o.Status, o.Solver, o.Ms = r.status, r.solver+" (retry)", r.ms
			o.Candidate = false
			if r.status == "sat" {
				o.Model = parseModel(r.out)
				o.Output = truncate(r.out, 4000)
			} else {
				o.Output = ""
			}
		}
	}
	// Second retry: at most two obligations that are still undecided get twelve times the
	// budget (observed once: an automatic range-counter obligation of a large unit timed out
	// twice while two other checks were saturating the machine).
	again := 0
	for _, o := range c.Obls {
		if o.Status != "unknown" || o.Vacuity || o.KnownClass != "" || again >= 2 || strings.HasPrefix(o.Output, "solver disagreement") {
			continue
		}
		second := 12 * timeoutMs
		if second > 120000 {
			second = 120000
		}
		if second <= 4*timeoutMs {
			break // the first retry already had at least that much
		}
		again++
		r := runSolvers(c.Query(o, true), second, false, solvers)
		if r.status == "unsat" || r.status == "sat" {
			o.Status, o.Solver, o.Ms = r.status, r.solver+" (second retry)", r.ms
			o.Candidate = false
			if r.status == "sat" {
				o.Model = parseModel(r.out)
				o.Output = truncate(r.out, 4000)
			} else {
				o.Output = ""
			}
		}
	}
}

// QuickUnsat: is the formula unsatisfiable under the assumptions logged so far?
// (short timeout, one solver; "don't know" counts as satisfiable)
func (c *Ctx) QuickUnsat(f Term) bool {
	if f.S == "false" {
		return true
	}
	o := &Obligation{Unit: c.Unit, Name: "prune", logLen: len(c.log), goal: f}
	r := runSolvers(c.query(o, false, true), 1500, false, solvers[:1])
	return r.status == "unsat"
}

// waitForLoad blocks until the 1-minute load average is below the number of CPUs, or max elapsed.
func waitForLoad(max time.Duration) {
	deadline := time.Now().Add(max)
	for time.Now().Before(deadline) {
		data, err := os.ReadFile("/proc/loadavg")
		if err != nil {
			return
		}
		var l1 float64
		if _, err := fmt.Sscan(string(data), &l1); err != nil {
			return
		}
		if l1 < float64(runtime.NumCPU()) {
			return
		}
		time.Sleep(5 * time.Second)
	}
}
