package core

import (
	"encoding/json"
	"fmt"
	"go/token"
	"go/types"
	"os"
	"path/filepath"
	"sort"
	"strings"
	"time"

	"golang.org/x/tools/go/packages"
	"golang.org/x/tools/go/ssa"
	"golang.org/x/tools/go/ssa/ssautil"
)

// Engine holds one loaded package.
type Engine struct {
	Prog           *ssa.Program
	Pkg            *ssa.Package
	TPkg           *types.Package
	PPkg           *packages.Package
	Fset           *token.FileSet
	Dir            string
	Contracts      map[string]*Contract
	ContractList   []*Contract
	Decls          []*Decl
	layouts        map[types.Type][]Sort
	typeIDs        map[string]int64
	typeNames      map[int64]string
	globals        map[*ssa.Global]int64
	funcs          map[*ssa.Function]int64
	firstDynRef    int64
	roGlobals      map[*ssa.Global]bool
	funcsByKey     map[string]*ssa.Function
	ghostStable    map[string]bool
	LoadMs         int64
	Monitors       []*Monitor
	DumpObl        string
	ExtraEval      []string
	Known          *KnownFindingsFile
	CurProp        string
	CurPkg         string
	dynKeys        map[*ssa.Function]map[string]bool
	escaping       []*ssa.Function
	FieldDecls     []*FieldDecl
	MapDecls       []*FieldDecl
	callees        map[*ssa.Function]map[*ssa.Function]bool
	reachCache     map[*ssa.Function]map[string]bool
	cellable       map[*ssa.Alloc]bool
	emitters       map[string]map[string]bool
	relatedCache   map[[2]*types.Named]bool
	scalarTags     map[int64]Sort
	relatedCache2  map[string]bool
	standaloneList []*types.Named
	memOffCache    map[types.Type][]int64
	autoPureCache  map[*ssa.Function]bool
	// baseline: keys of the package's functions at the commit the contracts were written for
	// (/verif/baseline_funcs.json). A function that is not in it and has no contract was
	// introduced by a later change: calls of it are verified through (inlined) instead of
	// being abstracted, and its writes count as its callers' for write-set declarations.
	baseline        map[string]bool
	autoInlineCache map[*ssa.Function]bool
	constTables     map[*ssa.Global][][2]ssa.Value
	constTableKnown map[*ssa.Global]bool
	Rel             string
}

// Load type-checks the package in dir (with -tags verif) and builds naive-form SSA for it.
func Load(repo, rel string) (*Engine, error) {
	start := time.Now()
	dir := filepath.Join(repo, rel)
	cfg := &packages.Config{Dir: dir, BuildFlags: []string{"-tags=verif"},
		Env: append(os.Environ(), "GOFLAGS=-mod=mod", "GOPROXY=off")}
	cfg.Mode = packages.NeedName | packages.NeedFiles | packages.NeedSyntax | packages.NeedTypes | packages.NeedTypesInfo |
		packages.NeedImports | packages.NeedDeps | packages.NeedTypesSizes | packages.NeedCompiledGoFiles
	pkgs, err := packages.Load(cfg, ".")
	if err != nil {
		return nil, err
	}
	if len(pkgs) != 1 {
		return nil, fmt.Errorf("expected one package in %s, got %d", dir, len(pkgs))
	}
	if len(pkgs[0].Errors) > 0 {
		return nil, fmt.Errorf("package %s does not type-check: %v", dir, pkgs[0].Errors[0])
	}
	prog, spkgs := ssautil.Packages(pkgs, ssa.NaiveForm|ssa.GlobalDebug|ssa.InstantiateGenerics)
	spkgs[0].Build()
	e := &Engine{Prog: prog, Pkg: spkgs[0], TPkg: pkgs[0].Types, PPkg: pkgs[0], Fset: pkgs[0].Fset, Dir: dir,
		Contracts: map[string]*Contract{}, layouts: map[types.Type][]Sort{}, typeIDs: map[string]int64{}, typeNames: map[int64]string{},
		globals: map[*ssa.Global]int64{}, funcs: map[*ssa.Function]int64{}, firstDynRef: 1 << 24,
		roGlobals: map[*ssa.Global]bool{}, cellable: map[*ssa.Alloc]bool{}, relatedCache: map[[2]*types.Named]bool{}, scalarTags: map[int64]Sort{}, relatedCache2: map[string]bool{}, memOffCache: map[types.Type][]int64{}, autoPureCache: map[*ssa.Function]bool{}, funcsByKey: map[string]*ssa.Function{}, ghostStable: map[string]bool{}}
	// contracts
	files, _ := filepath.Glob(filepath.Join(dir, "zz_verif_contracts*.go"))
	sort.Strings(files)
	for _, f := range files {
		cs, ds, err := ParseContractFile(f)
		if err != nil {
			return nil, err
		}
		for _, c := range cs {
			if _, dup := e.Contracts[c.Key]; dup {
				return nil, fmt.Errorf("%s:%d: duplicate contract for %s", c.File, c.Line, c.Key)
			}
			e.Contracts[c.Key] = c
			e.ContractList = append(e.ContractList, c)
		}
		e.Decls = append(e.Decls, ds...)
	}
	// functions of the package by key (including anonymous functions and methods)
	for fn := range ssautil.AllFunctions(prog) {
		if fn.Pkg == e.Pkg || (fn.Pkg == nil && fn.Origin() != nil && fn.Origin().Pkg == e.Pkg) {
			e.funcsByKey[e.fnKey(fn)] = fn
		}
	}
	e.Rel = rel
	e.baseline = loadBaseline(rel)
	e.autoInlineCache = map[*ssa.Function]bool{}
	e.findReadonlyGlobals()
	if err := e.parseFieldDecls(); err != nil {
		return nil, err
	}
	if err := e.parseMonitors(); err != nil {
		return nil, err
	}
	e.LoadMs = time.Since(start).Milliseconds()
	return e, nil
}

func (e *Engine) Func(key string) *ssa.Function { return e.funcsByKey[key] }

func (e *Engine) globalRef(g *ssa.Global) int64 {
	if id, ok := e.globals[g]; ok {
		return id
	}
	id := int64(len(e.globals) + 1)
	e.globals[g] = id
	return id
}

func (e *Engine) funcRef(f *ssa.Function) int64 {
	if id, ok := e.funcs[f]; ok {
		return id
	}
	id := int64(1<<22) + int64(len(e.funcs)+1)
	e.funcs[f] = id
	return id
}

// findReadonlyGlobals: package-level variables never stored to outside init.
func (e *Engine) findReadonlyGlobals() {
	written := map[*ssa.Global]bool{}
	for _, fn := range e.funcsByKey {
		if fn.Name() == "init" || strings.HasPrefix(fn.Name(), "init#") {
			continue
		}
		for _, b := range fn.Blocks {
			for _, in := range b.Instrs {
				for _, op := range in.Operands(nil) {
					g, ok := (*op).(*ssa.Global)
					if !ok {
						continue
					}
					// any use other than a direct load counts as a potential write
					if u, ok := in.(*ssa.UnOp); ok && u.Op == token.MUL && u.X == g {
						continue
					}
					written[g] = true
				}
			}
		}
	}
	for _, m := range e.Pkg.Members {
		if g, ok := m.(*ssa.Global); ok && !written[g] {
			e.roGlobals[g] = true
		}
	}
}

// readonlyGlobal returns the value of a global that is constant after init.
func (e *Engine) readonlyGlobal(x *Exec, s *State, g *ssa.Global) (Value, bool) {
	t := deref(g.Type())
	external := g.Pkg != e.Pkg
	if !e.roGlobals[g] && !external {
		return Value{}, false
	}
	if types.TypeString(t, nil) == "error" {
		// sentinel errors: non-nil, pairwise distinct, never reallocated
		x.C.Trusted["package-level error variables are non-nil, pairwise distinct and never reassigned after init"] = true
		return Value{T: t, L: []Term{IntLit(e.typeID(types.NewPointer(types.Typ[types.Uint8]))), IntLit(-(1000 + e.globalRef(g))), BVLitI(64, 0)}}, true
	}
	if external {
		return Value{}, false
	}
	// value as in the entry heap (never changes)
	st := x.entry
	if st == nil {
		st = s
	}
	return x.loadAt(st, t, IntLit(e.globalRef(g)), BVLitI(64, 0)), true
}

// ---------------------------------------------------------------------------
// Units

type UnitResult struct {
	Unit       string
	Kind       string // func | lemma | region | monitor
	Props      []string
	Obls       []*Obligation
	Error      string // non-empty: unit could not be generated (unsupported / unbound)
	Abstracted map[string]int
	Trusted    []string
	GenMs      int64
	SolveMs    int64
	Contract   *Contract
	Inputs     []InputSym
	Pkg        string
}

func (e *Engine) posOf(fn *ssa.Function) string {
	p := e.Fset.Position(fn.Pos())
	return fmt.Sprintf("%s:%d", filepath.Base(p.Filename), p.Line)
}

// VerifyFunction generates and discharges the obligations of one function under its contract.
func (e *Engine) VerifyFunction(fn *ssa.Function, ct *Contract, timeoutMs, par int, cross bool) (res *UnitResult) {
	unit := e.fnKey(fn)
	if ct != nil && strings.Contains(ct.Key, " #") {
		unit = ct.Key
	}
	res = &UnitResult{Unit: unit, Kind: "func", Contract: ct}
	if ct != nil {
		res.Props = ct.Props
	}
	start := time.Now()
	x := e.NewExec(unit)
	x.unitFn = fn
	if ct != nil && ct.SafetyBefore != "" {
		limit := token.NoPos
		for _, b := range fn.Blocks {
			for _, in := range b.Instrs {
				ci, ok := in.(ssa.CallInstruction)
				if !ok || in.Pos() == token.NoPos {
					continue
				}
				c := ci.Common()
				key := ""
				if callee := c.StaticCallee(); callee != nil {
					key = e.fnKey(callee)
				} else if c.IsInvoke() {
					key = e.invokeKey(c)
				}
				if key == ct.SafetyBefore && (limit == token.NoPos || in.Pos() < limit) {
					limit = in.Pos()
				}
			}
		}
		if limit == token.NoPos {
			res.Error = "safetybefore: the function does not call " + ct.SafetyBefore
			return res
		}
		x.safetyLimit = limit
		x.C.Trusted["safety is claimed only for the part of "+unit+" that precedes its first call of "+ct.SafetyBefore] = true
	}
	defer func() {
		if r := recover(); r != nil {
			if u, ok := r.(unsupported); ok {
				res.Error = u.Error()
				return
			}
			panic(r)
		}
	}()
	if ct != nil && ct.NoSafety {
		x.safety = false
	}
	variant := ct != nil && strings.Contains(ct.Key, " #")
	x.prune = variant && ct.Prune
	s := x.initialState()
	args := make([]Value, len(fn.Params))
	env := &specEnv{x: x, fn: fn, st: s, names: map[string]Value{}}
	for i, p := range fn.Params {
		args[i] = x.freshValue(s, p.Name(), p.Type())
		env.names[p.Name()] = args[i]
		for k, l := range args[i].L {
			nm := p.Name()
			if len(args[i].L) > 1 {
				nm = fmt.Sprintf("%s.%d", p.Name(), k)
			}
			x.C.Inputs = append(x.C.Inputs, InputSym{Name: nm, Term: l})
		}
	}
	var bindings []Value
	for _, fv := range fn.FreeVars {
		b := x.freshValue(s, fv.Name(), fv.Type())
		x.C.Assume(Not(Eq(b.L[0], IntLit(0))))
		bindings = append(bindings, b)
		// in the unit's own contract a captured variable is named like in the source
		env.names[fv.Name()] = x.loadAt(s, deref(fv.Type()), b.L[0], b.L[1])
		if constCapture(fn, len(bindings)-1, 0) {
			if x.constFV == nil {
				x.constFV = map[*ssa.FreeVar]Value{}
			}
			x.constFV[fv] = env.names[fv.Name()]
		}
	}
	var ptrParams []Value
	for _, a := range args {
		if _, ok := a.T.Underlying().(*types.Pointer); ok {
			ptrParams = append(ptrParams, a)
		}
	}
	for _, p := range ptrParams {
		x.noteStructAddr(s, deref(p.T), p.L[0], p.L[1])
	}
	// every ghost counter exists from the entry state on (a counter first mentioned after the
	// symbol generation changed would otherwise silently be a different, unconstrained symbol)
	for g := range e.ghostEmitters() {
		x.ghost(s, g)
	}
	x.entry = s.Clone()
	if ct != nil {
		for _, rq := range ct.Requires {
			x.C.Assume(env.evalAssume(rq.Expr))
		}
		for _, a := range ct.Assumes {
			x.C.Trusted[a] = true
		}
	}
	x.monitorEntry(fn, s, env)
	x.entry = s.Clone()
	if ct != nil && ct.Modifies != nil {
		pre := *env
		pre.st = x.entry
		x.frameTs = x.modTargets(&pre, ct.Modifies)
		x.frameOn = true
	}
	x.C.Cover(unit+"#cover.requires", e.posOf(fn), True)
	if ct != nil {
		for _, ac := range ct.AtCalls {
			ac.Hits = 0
		}
	}
	x.stepHits = map[*Clause]int{}
	exit, results, fr := x.run(fn, s, args, bindings, ct, false)
	_ = fr
	if ct != nil {
		for n, lc := range ct.Loops {
			for k, stp := range lc.Steps {
				if x.stepHits[stp] == 0 {
					x.C.Oblige(fmt.Sprintf("%s#loop%d.step%d.unbound", unit, n, k), "step", fmt.Sprintf("%s:%d", filepath.Base(stp.File), stp.Line),
						"the step clause binds at some back edge of the loop", True, False)
				}
			}
		}
	}
	if ct != nil {
		for k, ac := range ct.AtCalls {
			if ac.Hits == 0 {
				x.C.Oblige(fmt.Sprintf("%s#atcall%d.unbound", unit, k), "atcall", fmt.Sprintf("%s:%d", filepath.Base(ac.File), ac.Line),
					"the function calls "+ac.Callee+" (structural anchor of the region postcondition)", True, False)
			}
		}
	}
	if exit != nil {
		x.C.Cover(unit+"#cover.exit", e.posOf(fn), exit.Reach)
		// every return site must be reachable under the precondition (vacuity guard:
		// a contradictory assumption on one path would make everything on it provable)
		if fr != nil && len(fr.returns) > 1 && !variant {
			for k, re := range fr.returns {
				o := x.C.Cover(fmt.Sprintf("%s#cover.return%d", unit, k+1), x.pos(re.from.Instrs[len(re.from.Instrs)-1].Pos()), re.cond)
				o.ReturnCover = true
			}
		}
		if ct != nil {
			post := &specEnv{x: x, fn: fn, st: exit, old: x.entry, names: map[string]Value{}}
			for k, v := range env.names {
				post.names[k] = v
			}
			bindResults(post.names, fn.Signature, results)
			for k, en := range ct.Ensures {
				name := fmt.Sprintf("%s#ensures%d", unit, k)
				x.obligeKnown(post, name, "ensures", fmt.Sprintf("%s:%d", filepath.Base(en.File), en.Line), en.Text, exit.Reach, post.evalGoal(en.Expr))
			}
			if ct.Modifies != nil {
				x.frameObligations(unit, ct, env, exit)
			}
			for _, ex := range append(append([]string(nil), ct.Observes...), e.ExtraEval...) {
				alias := ""
				if i := strings.Index(ex, ":="); i > 0 {
					alias, ex = strings.TrimSpace(ex[:i]), strings.TrimSpace(ex[i+2:])
				}
				pe, err := parseSpecExpr(ex)
				if err != nil {
					panic(err)
				}
				v := post.eval(pe)
				for k, l := range v.L {
					if alias != "" && len(v.L) == 1 {
						x.C.Observe(alias, l)
					} else {
						x.C.Observe(fmt.Sprintf("%s.%d", ex, k), l)
					}
				}
			}
		}
		x.monitorExit(fn, exit, env)
	}
	res.GenMs = time.Since(start).Milliseconds()
	t1 := time.Now()
	if ct != nil && ct.TimeoutS*1000 > timeoutMs {
		timeoutMs = ct.TimeoutS * 1000
	}
	if e.DumpObl != "" {
		for _, o := range x.C.Obls {
			if o.Name == e.DumpObl {
				fmt.Println(x.C.Query(o, true))
			}
		}
	}
	x.C.Solve(timeoutMs, par, cross)
	res.SolveMs = time.Since(t1).Milliseconds()
	res.Obls = x.C.Obls
	res.Inputs = x.C.Inputs
	res.Abstracted = x.C.Abstracted
	for k := range x.C.Trusted {
		res.Trusted = append(res.Trusted, k)
	}
	sort.Strings(res.Trusted)
	return res
}

// frameObligations: every location allocated at entry and not named by the
// modifies clause has its entry value at exit.
func (x *Exec) frameObligations(unit string, ct *Contract, env *specEnv, exit *State) {
	pre := *env
	pre.st = x.entry
	ts := x.modTargets(&pre, ct.Modifies)
	pos := fmt.Sprintf("%s:%d", filepath.Base(ct.Modifies.File), ct.Modifies.Line)
	for _, k := range AllLeafSorts {
		if exit.Heaps[k].S == x.entry.Heaps[k].S {
			continue
		}
		r := x.C.BoundVar("r", SInt)
		o := x.C.BoundVar("o", SBV64)
		prop := Forall([]Term{r, o}, Implies(And(App(SBool, "<", IntLit(0), r), App(SBool, "<", r, x.entry.Frontier), Not(inTargets(ts, r, o))),
			Eq(Select(Select(exit.Heaps[k], r, ObjSort(k)), o, k), Select(Select(x.entry.Heaps[k], r, ObjSort(k)), o, k))))
		x.C.Oblige(fmt.Sprintf("%s#frame.%s", unit, sanitize(string(k))), "frame", pos, "modifies "+ct.Modifies.Text, exit.Reach, prop)
	}
	var mapRefs []Term
	for _, t := range ts {
		if t.kind == "maps" {
			mapRefs = append(mapRefs, t.ref)
		}
	}
	if exit.Base != x.entry.Base {
		x.C.Oblige(unit+"#frame.maps", "frame", pos, "modifies "+ct.Modifies.Text+" (maps havocked by an uncontracted call)", exit.Reach, False)
		return
	}
	notListed := func(r Term) Term {
		var cs []Term
		for _, m := range mapRefs {
			cs = append(cs, Not(Eq(r, m)))
		}
		return And(cs...)
	}
	for k, d := range exit.MapDom {
		d0 := x.baseSym(x.entry.Base, "MD_"+string(k), mapDomSort(k))
		if d.S == d0.S {
			continue
		}
		r := x.C.BoundVar("r", SInt)
		ds := Sort("(Array " + string(k) + " Bool)")
		prop := Forall([]Term{r}, Implies(And(App(SBool, "<", IntLit(0), r), App(SBool, "<", r, x.entry.Frontier), notListed(r)),
			Eq(Select(d, r, ds), Select(d0, r, ds))))
		x.C.Oblige(fmt.Sprintf("%s#frame.mapdom.%s", unit, sanitize(string(k))), "frame", pos, "modifies "+ct.Modifies.Text, exit.Reach, prop)
	}
	for key, v := range exit.MapVal {
		v0 := x.baseSym(x.entry.Base, "MV_"+key, x.mapValSorts[key])
		if v.S == v0.S {
			continue
		}
		r := x.C.BoundVar("r", SInt)
		inner := Sort(strings.TrimSuffix(strings.TrimPrefix(string(v.Sort), "(Array Int "), ")"))
		prop := Forall([]Term{r}, Implies(And(App(SBool, "<", IntLit(0), r), App(SBool, "<", r, x.entry.Frontier), notListed(r)),
			Eq(Select(v, r, inner), Select(v0, r, inner))))
		x.C.Oblige(fmt.Sprintf("%s#frame.mapval.%s", unit, sanitize(key)), "frame", pos, "modifies "+ct.Modifies.Text, exit.Reach, prop)
	}
}

// VerifyUnit verifies the unit with the given contract key.
func (e *Engine) VerifyUnit(key string, timeoutMs, par int, cross bool, dump string) *UnitResult {
	e.DumpObl = dump
	ct := e.Contracts[key]
	if ct != nil && ct.Lemma {
		return e.VerifyLemma(ct, timeoutMs, par, cross)
	}
	if ct != nil && ct.Region != nil {
		return e.VerifyRegion(ct, timeoutMs, par, cross)
	}
	if ct != nil && ct.Trusted {
		return &UnitResult{Unit: key, Kind: "trusted", Contract: ct}
	}
	// contract variants: "F #name" is a second contract of F, verified as its own
	// unit (typically under a narrower precondition) and never applied at call sites
	fkey := key
	if i := strings.Index(key, " #"); i > 0 {
		fkey = key[:i]
	}
	fn := e.Func(fkey)
	if fn == nil {
		return &UnitResult{Unit: key, Kind: "func", Contract: ct, Error: "unbound contract: no function " + key + " in package " + e.TPkg.Path()}
	}
	return e.VerifyFunction(fn, ct, timeoutMs, par, cross)
}

// VerifyLemma proves a closed statement over spec functions:
//
//	//@ lemma name
//	//@ vars a T, b U
//	//@ requires ...
//	//@ ensures ...
func (e *Engine) VerifyLemma(ct *Contract, timeoutMs, par int, cross bool) (res *UnitResult) {
	res = &UnitResult{Unit: ct.Key, Kind: "lemma", Contract: ct, Props: ct.Props}
	start := time.Now()
	x := e.NewExec(ct.Key)
	x.safety = false
	defer func() {
		if r := recover(); r != nil {
			if u, ok := r.(unsupported); ok {
				res.Error = u.Error()
				return
			}
			panic(r)
		}
	}()
	scope := e.Pkg.Func("init")
	s := x.initialState()
	env := &specEnv{x: x, fn: scope, st: s, old: s, names: map[string]Value{}}
	for _, v := range ct.Vars {
		f := strings.Fields(v)
		if len(f) < 2 {
			unsup("lemma vars: want 'name type', got %q", v)
		}
		te, err := parseSpecExpr(strings.Join(f[1:], " "))
		if err != nil {
			unsup("lemma var type: %v", err)
		}
		t := env.resolveType(te)
		if t == nil {
			unsup("lemma var %s: unknown type %s", f[0], f[1])
		}
		val := x.freshValue(s, f[0], t)
		env.names[f[0]] = val
		for k, l := range val.L {
			nm := f[0]
			if len(val.L) > 1 {
				nm = fmt.Sprintf("%s.%d", f[0], k)
			}
			x.C.Inputs = append(x.C.Inputs, InputSym{Name: nm, Term: l})
		}
	}
	x.entry = s.Clone()
	for _, rq := range ct.Requires {
		x.C.Assume(env.evalAssume(rq.Expr))
	}
	x.C.Cover(ct.Key+"#cover.requires", fmt.Sprintf("%s:%d", filepath.Base(ct.File), ct.Line), True)
	for k, en := range ct.Ensures {
		x.obligeKnown(env, fmt.Sprintf("%s#ensures%d", ct.Key, k), "lemma", fmt.Sprintf("%s:%d", filepath.Base(en.File), en.Line), en.Text, True, env.evalGoal(en.Expr))
	}
	for _, ex := range ct.Observes {
		pe, err := parseSpecExpr(ex)
		if err != nil {
			unsup("observe: %v", err)
		}
		v := env.eval(pe)
		for k, l := range v.L {
			x.C.Observe(fmt.Sprintf("%s.%d", ex, k), l)
		}
	}
	res.GenMs = time.Since(start).Milliseconds()
	t1 := time.Now()
	x.C.Solve(timeoutMs, par, cross)
	res.SolveMs = time.Since(t1).Milliseconds()
	res.Obls = x.C.Obls
	res.Inputs = x.C.Inputs
	res.Abstracted = x.C.Abstracted
	for k := range x.C.Trusted {
		res.Trusted = append(res.Trusted, k)
	}
	sort.Strings(res.Trusted)
	return res
}

func (e *Engine) VerifyRegion(ct *Contract, timeoutMs, par int, cross bool) *UnitResult {
	return &UnitResult{Unit: ct.Key, Kind: "region", Contract: ct, Error: "regions not implemented"}
}

// obligeKnown records an obligation, splitting off the input classes that the
// known-findings file lists for it: the listed class is expected to fail and is
// reported as KNOWN-FINDING; everything outside it must still be discharged.
func (x *Exec) obligeKnown(env *specEnv, name, kind, pos, clause string, reach, prop Term) {
	var classes []Term
	if x.E.Known != nil {
		for _, f := range x.E.Known.Findings {
			if f.Status != "known" || f.Obligation != name || (f.Property != "" && x.E.CurProp != "" && f.Property != x.E.CurProp) || (f.Pkg != "" && f.Pkg != x.E.CurPkg) {
				continue
			}
			cls := True
			if f.Class != "" {
				pe, err := parseSpecExpr(f.Class)
				if err != nil {
					unsup("known finding class: %v", err)
				}
				// a class that names locals which do not exist at this program point does not
				// describe this obligation (the code changed shape): the finding suppresses nothing
				bound := func() (ok bool) {
					defer func() {
						if r := recover(); r != nil {
							if u, isU := r.(unsupported); isU && strings.Contains(u.msg, "unknown identifier") {
								ok = false
								return
							}
							panic(r)
						}
					}()
					cls = env.evalBool(pe)
					return true
				}()
				if !bound {
					continue
				}
			}
			cls = x.C.Define("kfclass", cls)
			o := &Obligation{Unit: x.C.Unit, Name: name + "[known]", Kind: kind, Pos: pos, Clause: clause, logLen: len(x.C.log),
				goal: And(reach, Not(prop), cls), KnownClass: f.Class, KnownWhat: fmt.Sprintf("property=%s %s", f.Property, f.What)}
			if f.Class == "" {
				o.KnownClass = "*"
			}
			x.C.Obls = append(x.C.Obls, o)
			classes = append(classes, cls)
		}
	}
	if len(classes) == 0 {
		x.C.Oblige(name, kind, pos, clause, reach, prop)
		return
	}
	x.C.Oblige(name, kind, pos, clause+"  [outside the recorded known-finding classes]", And(reach, Not(Or(classes...))), prop)
}

// WriteSetUnits reports the write-set declarations serving a property as units.
func (e *Engine) WriteSetUnits(prop string) []*UnitResult {
	var out []*UnitResult
	for _, fd := range append(append([]*FieldDecl{}, e.FieldDecls...), e.MapDecls...) {
		if !hasProp(fd.Props, prop) {
			continue
		}
		name := fmt.Sprintf("writeset(%s.%s)", fd.Struct, fd.Field)
		if fd.MapContent {
			name = fmt.Sprintf("writeset(%s.%s[])", fd.Struct, fd.Field)
		}
		o := &Obligation{Unit: name, Name: name, Kind: "writeset", Pos: fmt.Sprintf("%s:%d", filepath.Base(fd.Decl.File), fd.Decl.Line),
			Clause: "every store into the field (or escape of its address) occurs in a listed writer: " + fd.Decl.Text, Solver: "ssa-scan", Status: "unsat"}
		if len(fd.Violated) > 0 {
			o.Status = "unknown"
			o.Output = strings.Join(fd.Violated, "; ")
		}
		out = append(out, &UnitResult{Unit: name, Kind: "writeset", Props: fd.Props, Obls: []*Obligation{o}})
	}
	out = append(out, e.callerUnits(prop)...)
	return out
}

// callerUnits checks "callers <callee> [props ..] only F1, F2": every call (call, defer,
// go) of the callee and every use of it as a value occurs inside a listed function.
func (e *Engine) callerUnits(prop string) []*UnitResult {
	var out []*UnitResult
	for _, d := range e.Decls {
		if d.Kind != "callers" {
			continue
		}
		parts := strings.SplitN(d.Text+" ", " only ", 2)
		head := strings.Fields(parts[0])
		var props []string
		if len(head) > 2 && head[1] == "props" {
			props = head[2:]
		}
		if !hasProp(props, prop) {
			continue
		}
		name := fmt.Sprintf("callers(%s)", head[0])
		o := &Obligation{Unit: name, Name: name, Kind: "callers", Pos: fmt.Sprintf("%s:%d", filepath.Base(d.File), d.Line),
			Clause: "every call or value use of the function occurs in a listed caller: " + d.Text, Solver: "ssa-scan", Status: "unsat"}
		target := e.Func(head[0])
		if len(parts) != 2 || target == nil {
			o.Status, o.Output = "unknown", "malformed declaration or unknown function "+head[0]
		} else {
			allowed := map[string]bool{}
			for _, w := range splitTopLevel(parts[1], ',') {
				allowed[strings.TrimSpace(w)] = true
			}
			var bad []string
			sites := 0
			var keys []string
			for k := range e.funcsByKey {
				keys = append(keys, k)
			}
			sort.Strings(keys)
			for _, k := range keys {
				fn := e.funcsByKey[k]
				for _, b := range fn.Blocks {
					for _, in := range b.Instrs {
						uses := false
						for _, op := range in.Operands(nil) {
							if op == nil || *op == nil {
								continue
							}
							if f, ok := (*op).(*ssa.Function); ok && (f == target || (f.Synthetic != "" && strings.HasPrefix(f.Name(), target.Name()+"$"))) && f.Pkg == target.Pkg {
								if f == target || strings.HasPrefix(e.fnKey(f), head[0]+"$") {
									uses = true
								}
							}
						}
						if !uses {
							continue
						}
						sites++
						if !allowed[k] {
							bad = append(bad, fmt.Sprintf("%s uses %s at %s", k, head[0], e.Fset.Position(in.Pos())))
						}
					}
				}
			}
			if len(bad) > 0 {
				o.Status, o.Output = "unknown", strings.Join(bad, "; ")
			}
			o.Clause += fmt.Sprintf(" (%d sites)", sites)
		}
		out = append(out, &UnitResult{Unit: name, Kind: "callers", Props: props, Obls: []*Obligation{o}})
	}
	return out
}

// loadBaseline reads the function keys recorded for the package directory rel.
func loadBaseline(rel string) map[string]bool {
	path := os.Getenv("VERIF_BASELINE")
	if path == "" {
		exe, err := os.Executable()
		if err != nil {
			return nil
		}
		path = filepath.Join(filepath.Dir(filepath.Dir(exe)), "baseline_funcs.json")
	}
	data, err := os.ReadFile(path)
	if err != nil {
		return nil
	}
	var all map[string][]string
	if json.Unmarshal(data, &all) != nil {
		return nil
	}
	keys, ok := all[filepath.Clean(rel)]
	if !ok {
		return nil
	}
	m := map[string]bool{}
	for _, k := range keys {
		m[k] = true
	}
	return m
}

// FuncKeys lists the keys of the package's functions (for the baseline file).
func (e *Engine) FuncKeys() []string {
	var ks []string
	for k := range e.funcsByKey {
		ks = append(ks, k)
	}
	sort.Strings(ks)
	return ks
}

// isNewFunc: a named package function without contract that the baseline does not know.
func (e *Engine) isNewFunc(fn *ssa.Function) bool {
	if e.baseline == nil || fn == nil || fn.Parent() != nil || len(fn.Blocks) == 0 {
		return false
	}
	if fn.Pkg != e.Pkg {
		return false
	}
	if e.contractFor(fn) != nil {
		return false
	}
	return !e.baseline[e.fnKey(fn)]
}

// autoInline: a new function (isNewFunc) that can be executed in place: not recursive, of
// moderate size, without goroutines, channel operations or select.
func (e *Engine) autoInline(fn *ssa.Function) bool {
	if r, ok := e.autoInlineCache[fn]; ok {
		return r
	}
	e.autoInlineCache[fn] = false
	if !e.isNewFunc(fn) {
		return false
	}
	n := 0
	for _, b := range fn.Blocks {
		for _, in := range b.Instrs {
			n++
			switch in := in.(type) {
			case *ssa.Send, *ssa.Select:
				return false
			case *ssa.UnOp:
				if in.Op == token.ARROW {
					return false
				}
			case *ssa.Call:
				if callee := in.Call.StaticCallee(); callee != nil && e.reachesFn(callee, fn, 0) {
					return false // recursion
				}
			}
		}
	}
	if n > 600 {
		return false
	}
	e.autoInlineCache[fn] = true
	return true
}

func (e *Engine) reachesFn(from, target *ssa.Function, depth int) bool {
	if from == target {
		return true
	}
	if depth > 6 || from.Pkg != e.Pkg {
		return false
	}
	for _, b := range from.Blocks {
		for _, in := range b.Instrs {
			if c, ok := in.(ssa.CallInstruction); ok {
				if callee := c.Common().StaticCallee(); callee != nil && callee != from && e.reachesFn(callee, target, depth+1) {
					return true
				}
			}
		}
	}
	return false
}

// constTable: v is a load of a package-level map variable that is a constant table: the
// variable is never assigned outside init, init stores into it one map built by a literal
// whose keys and values are constants of basic type, and every load of the variable anywhere
// in the package is used only for lookups and len (no update, delete, range, call argument,
// store). Returns the (key, value) constants in initialisation order, or nil.
func (e *Engine) constTable(v ssa.Value) [][2]ssa.Value {
	u, ok := v.(*ssa.UnOp)
	if !ok || u.Op != token.MUL {
		return nil
	}
	g, ok := u.X.(*ssa.Global)
	if !ok || g.Pkg != e.Pkg || !e.roGlobals[g] {
		return nil
	}
	if e.constTables == nil {
		e.constTables = map[*ssa.Global][][2]ssa.Value{}
		e.constTableKnown = map[*ssa.Global]bool{}
	}
	if e.constTableKnown[g] {
		return e.constTables[g]
	}
	e.constTableKnown[g] = true
	mt, ok := deref(g.Type()).Underlying().(*types.Map)
	if !ok {
		return nil
	}
	basic := func(t types.Type) bool { _, ok := t.Underlying().(*types.Basic); return ok }
	if !basic(mt.Key()) || !basic(mt.Elem()) {
		return nil
	}
	// every load is read-only
	for _, fn := range e.funcsByKey {
		for _, b := range fn.Blocks {
			for _, in := range b.Instrs {
				ld, ok := in.(*ssa.UnOp)
				if !ok || ld.Op != token.MUL || ld.X != ssa.Value(g) {
					continue
				}
				for _, r := range *ld.Referrers() {
					switch r := r.(type) {
					case *ssa.DebugRef:
					case *ssa.Lookup:
						if r.X != ssa.Value(ld) {
							return nil
						}
					case *ssa.Call:
						if b, ok := r.Call.Value.(*ssa.Builtin); !ok || b.Name() != "len" {
							return nil
						}
					default:
						return nil
					}
				}
			}
		}
	}
	// the initialiser
	var mk *ssa.MakeMap
	for _, m := range e.Pkg.Members {
		fn, ok := m.(*ssa.Function)
		if !ok || fn.Name() != "init" {
			continue
		}
		for _, b := range fn.Blocks {
			for _, in := range b.Instrs {
				if st, ok := in.(*ssa.Store); ok && st.Addr == ssa.Value(g) {
					if mk != nil {
						return nil
					}
					mm, ok := st.Val.(*ssa.MakeMap)
					if !ok {
						return nil
					}
					mk = mm
				}
			}
		}
	}
	if mk == nil {
		return nil
	}
	var tbl [][2]ssa.Value
	for _, r := range *mk.Referrers() {
		switch r := r.(type) {
		case *ssa.DebugRef, *ssa.Store:
		case *ssa.MapUpdate:
			_, kc := r.Key.(*ssa.Const)
			_, vc := r.Value.(*ssa.Const)
			if r.Map != ssa.Value(mk) || !kc || !vc {
				return nil
			}
			tbl = append(tbl, [2]ssa.Value{r.Key, r.Value})
		default:
			return nil
		}
	}
	e.constTables[g] = tbl
	return tbl
}
