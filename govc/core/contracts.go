package core

import (
	"fmt"
	"go/ast"
	"go/parser"
	"os"
	"regexp"
	"strconv"
	"strings"
)

// Clause is one contract clause with its parsed expression.
type Clause struct {
	Kind string // requires ensures invariant decreases modifies
	Text string
	Expr ast.Expr   // parsed (after ==> / quantifier desugaring)
	List []ast.Expr // modifies: list of lvalues
	Line int
	File string
}

type LoopContract struct {
	Invariants []*Clause
	Breaks     []*Clause // must hold at every edge that leaves the loop from inside its body (break / goto; not the head's own exit)
	Steps      []*Clause // per-iteration postconditions: hold at every back edge (locals of the body in scope; loophead(e) = value at the head of the iteration)
	Decreases  *Clause
	Modifies   *Clause
}

// Contract is everything declared under one "//@ func" header.
type Contract struct {
	Key             string
	Requires        []*Clause
	Ensures         []*Clause
	Modifies        *Clause // nil = may modify the whole heap
	Loops           map[int]*LoopContract
	Pure            bool // callers may inline the body as a spec function
	Trusted         bool // contract assumed, body not verified (external or out-of-subset)
	Inline          bool // callers inline the body instead of using the contract
	NoSafety        bool // do not generate no-panic obligations (for spec helpers)
	SafetyBefore    string // callee key: safety obligations only before the first call of it
	Rec             bool // recursive spec function: translated to define-fun-rec
	SafetyOnly      bool
	Props           []string
	Assumes         []string // free-text assumptions to be listed in evidence
	File            string
	Line            int
	Used            bool
	Region          *RegionSpec
	Ghost           []*Clause // ghost updates performed by a call: "ghost name += expr"
	Axiom           bool
	Lemma           bool
	Vars            []string  // lemma: "name type" universally quantified variables
	Calls           []string  // for documentation
	Observes        []string  // expressions whose values counterexamples report
	Locked          []string  // lock field names that every caller must hold
	AtCalls         []*AtCall // assertions checked in this function just before calls of a named callee
	TimeoutS        int       // per-obligation solver budget for this unit in seconds (0 = tier default)
	Prune           bool      // drop branches the precondition rules out while executing (narrow-precondition variants)
	DeadReturnCount int       // number of return sites that are legitimately unreachable under the precondition (defensive dead code)
}

type RegionSpec struct {
	Func     string
	FromKind string // "call" | "assign" | "start"
	FromArg  string
	ToKind   string
	ToArg    string
}

var clauseKeywords = map[string]bool{"func": true, "requires": true, "ensures": true, "modifies": true, "loop": true,
	"pure": true, "trusted": true, "inline": true, "nosafety": true, "props": true, "assume": true, "region": true,
	"from": true, "to": true, "ghost": true, "lemma": true, "vars": true, "safetyonly": true, "field": true, "monitor": true, "end": true, "observe": true, "deadreturn": true, "locked": true, "prune": true, "atcall": true, "atsend": true, "timeout": true, "atreturn": true, "callers": true, "rec": true, "safetybefore": true}

type rawLine struct {
	text string
	line int
}

// ParseContractFile reads the //@ blocks of one file.
func ParseContractFile(path string) ([]*Contract, []*Decl, error) {
	data, err := os.ReadFile(path)
	if err != nil {
		return nil, nil, err
	}
	var lines []rawLine
	for i, l := range strings.Split(string(data), "\n") {
		t := strings.TrimSpace(l)
		if !strings.HasPrefix(t, "//@") {
			continue
		}
		body := strings.TrimSpace(strings.TrimPrefix(t, "//@"))
		if body == "" {
			continue
		}
		first := strings.Fields(body)[0]
		if clauseKeywords[first] || len(lines) == 0 {
			lines = append(lines, rawLine{body, i + 1})
		} else {
			lines[len(lines)-1].text += " " + body
		}
	}
	var out []*Contract
	var decls []*Decl
	var cur *Contract
	for _, rl := range lines {
		fields := strings.Fields(rl.text)
		kw := fields[0]
		rest := strings.TrimSpace(strings.TrimPrefix(rl.text, kw))
		mk := func(kind, text string) (*Clause, error) {
			c := &Clause{Kind: kind, Text: text, Line: rl.line, File: path}
			if kind == "modifies" {
				if strings.TrimSpace(text) == "nothing" {
					return c, nil
				}
				for _, part := range splitTopLevel(text, ',') {
					e, err := parseSpecExpr(part)
					if err != nil {
						return nil, fmt.Errorf("%s:%d: %v", path, rl.line, err)
					}
					c.List = append(c.List, e)
				}
				return c, nil
			}
			e, err := parseSpecExpr(text)
			if err != nil {
				return nil, fmt.Errorf("%s:%d: %v in %q", path, rl.line, err, text)
			}
			c.Expr = e
			return c, nil
		}
		if kw == "func" || kw == "lemma" || kw == "region" {
			cur = &Contract{Key: rest, Loops: map[int]*LoopContract{}, File: path, Line: rl.line}
			if kw == "lemma" {
				cur.Lemma = true
				cur.Key = "lemma " + rest
			}
			if kw == "region" {
				f := strings.Fields(rest)
				if len(f) != 2 {
					return nil, nil, fmt.Errorf("%s:%d: region <func> <name>", path, rl.line)
				}
				cur.Region = &RegionSpec{Func: f[0]}
				cur.Key = f[0] + "@" + f[1]
			}
			out = append(out, cur)
			continue
		}
		if kw == "field" || kw == "monitor" || kw == "callers" {
			decls = append(decls, &Decl{Kind: kw, Text: rest, File: path, Line: rl.line})
			continue
		}
		if cur == nil {
			return nil, nil, fmt.Errorf("%s:%d: clause before any func header", path, rl.line)
		}
		switch kw {
		case "requires", "ensures":
			c, err := mk(kw, rest)
			if err != nil {
				return nil, nil, err
			}
			if kw == "requires" {
				cur.Requires = append(cur.Requires, c)
			} else {
				cur.Ensures = append(cur.Ensures, c)
			}
		case "modifies":
			c, err := mk(kw, rest)
			if err != nil {
				return nil, nil, err
			}
			cur.Modifies = c
		case "loop":
			if len(fields) < 3 {
				return nil, nil, fmt.Errorf("%s:%d: loop <n> invariant|decreases|modifies <expr>", path, rl.line)
			}
			n, err := strconv.Atoi(fields[1])
			if err != nil {
				return nil, nil, fmt.Errorf("%s:%d: bad loop ordinal", path, rl.line)
			}
			lc := cur.Loops[n]
			if lc == nil {
				lc = &LoopContract{}
				cur.Loops[n] = lc
			}
			idx := strings.Index(rl.text, fields[2])
			text := strings.TrimSpace(rl.text[idx+len(fields[2]):])
			switch fields[2] {
			case "invariant":
				c, err := mk("invariant", text)
				if err != nil {
					return nil, nil, err
				}
				lc.Invariants = append(lc.Invariants, c)
			case "break":
				c, err := mk("break", text)
				if err != nil {
					return nil, nil, err
				}
				lc.Breaks = append(lc.Breaks, c)
			case "step":
				c, err := mk("step", text)
				if err != nil {
					return nil, nil, err
				}
				lc.Steps = append(lc.Steps, c)
			case "decreases":
				c, err := mk("decreases", text)
				if err != nil {
					return nil, nil, err
				}
				lc.Decreases = c
			case "modifies":
				c, err := mk("modifies", text)
				if err != nil {
					return nil, nil, err
				}
				lc.Modifies = c
			default:
				return nil, nil, fmt.Errorf("%s:%d: unknown loop clause %s", path, rl.line, fields[2])
			}
		case "pure":
			cur.Pure = true
		case "rec":
			cur.Rec = true
			cur.Pure = true
			cur.NoSafety = true
		case "trusted":
			cur.Trusted = true
		case "inline":
			cur.Inline = true
		case "nosafety":
			cur.NoSafety = true
		case "safetyonly":
			cur.SafetyOnly = true
		case "safetybefore":
			// safety obligations only for the part of the function that textually precedes the first
			// call of the named callee (the rest of the function is NOT claimed)
			cur.SafetyBefore = strings.TrimSpace(rest)
		case "props":
			cur.Props = append(cur.Props, fields[1:]...)
		case "assume":
			cur.Assumes = append(cur.Assumes, rest)
		case "timeout":
			n, err := strconv.Atoi(strings.TrimSpace(rest))
			if err != nil {
				return nil, nil, fmt.Errorf("%s:%d: timeout <seconds>", path, rl.line)
			}
			cur.TimeoutS = n
		case "prune":
			cur.Prune = true
		case "atreturn":
			// atreturn assert <expr>  (checked at every return site where the locals it names are in scope)
			i := strings.Index(rest, "assert ")
			if i < 0 {
				return nil, nil, fmt.Errorf("%s:%d: atreturn assert <expr>", path, rl.line)
			}
			e, err := parseSpecExpr(rest[i+7:])
			if err != nil {
				return nil, nil, fmt.Errorf("%s:%d: %v", path, rl.line, err)
			}
			cur.AtCalls = append(cur.AtCalls, &AtCall{Callee: "<return>", Text: rest[i+7:], Expr: e, Line: rl.line, File: path})
		case "atsend":
			// atsend assert <expr>   (checked before every channel send / select with a send case; "sent" names the value)
			i := strings.Index(rest, "assert ")
			if i < 0 {
				return nil, nil, fmt.Errorf("%s:%d: atsend assert <expr>", path, rl.line)
			}
			e, err := parseSpecExpr(rest[i+7:])
			if err != nil {
				return nil, nil, fmt.Errorf("%s:%d: %v", path, rl.line, err)
			}
			cur.AtCalls = append(cur.AtCalls, &AtCall{Callee: "<send>", Text: rest[i+7:], Expr: e, Line: rl.line, File: path})
		case "atcall":
			// atcall <callee key> assert <expr>
			i := strings.Index(rest, " assert ")
			if i < 0 {
				return nil, nil, fmt.Errorf("%s:%d: atcall <callee> assert <expr>", path, rl.line)
			}
			e, err := parseSpecExpr(rest[i+8:])
			if err != nil {
				return nil, nil, fmt.Errorf("%s:%d: %v", path, rl.line, err)
			}
			cur.AtCalls = append(cur.AtCalls, &AtCall{Callee: strings.TrimSpace(rest[:i]), Text: rest[i+8:], Expr: e, Line: rl.line, File: path})
		case "locked":
			cur.Locked = append(cur.Locked, fields[1:]...)
		case "deadreturn":
			n, err := strconv.Atoi(strings.TrimSpace(rest))
			if err != nil {
				return nil, nil, fmt.Errorf("%s:%d: deadreturn <count>", path, rl.line)
			}
			cur.DeadReturnCount = n
		case "observe":
			cur.Observes = append(cur.Observes, rest)
		case "vars":
			for _, v := range splitTopLevel(rest, ',') {
				cur.Vars = append(cur.Vars, strings.TrimSpace(v))
			}
		case "ghost":
			c := &Clause{Kind: "ghost", Text: rest, Line: rl.line, File: path}
			cur.Ghost = append(cur.Ghost, c)
		case "from", "to":
			if cur.Region == nil {
				return nil, nil, fmt.Errorf("%s:%d: from/to outside region", path, rl.line)
			}
			if len(fields) < 2 {
				return nil, nil, fmt.Errorf("%s:%d: from|to <kind> [arg]", path, rl.line)
			}
			arg := strings.Join(fields[2:], " ")
			if kw == "from" {
				cur.Region.FromKind, cur.Region.FromArg = fields[1], arg
			} else {
				cur.Region.ToKind, cur.Region.ToArg = fields[1], arg
			}
		case "end":
		default:
			return nil, nil, fmt.Errorf("%s:%d: unknown clause %q", path, rl.line, kw)
		}
	}
	return out, decls, nil
}

// Decl is a package-level declaration (field write-sets, monitors).
type Decl struct {
	Kind string
	Text string
	File string
	Line int
}

// splitTopLevel splits s on sep outside of parentheses/brackets/braces/strings.
func splitTopLevel(s string, sep byte) []string {
	var parts []string
	d := 0
	start := 0
	inStr := byte(0)
	for i := 0; i < len(s); i++ {
		ch := s[i]
		if inStr != 0 {
			if ch == '\\' {
				i++
			} else if ch == inStr {
				inStr = 0
			}
			continue
		}
		switch ch {
		case '"', '\'', '`':
			inStr = ch
		case '(', '[', '{':
			d++
		case ')', ']', '}':
			d--
		default:
			if ch == sep && d == 0 {
				parts = append(parts, s[start:i])
				start = i + 1
			}
		}
	}
	parts = append(parts, s[start:])
	return parts
}

var quantRe = regexp.MustCompile(`^\s*(forall|exists)\s+([A-Za-z_][A-Za-z0-9_]*)\s+([^:]+?)\s*::`)

// desugar rewrites "a ==> b" into "implies__(a, b)" and
// "forall i T :: body" into "forall__(func(i T) bool { return body })",
// recursively inside every parenthesised group.
func desugar(s string) string {
	// first handle nested groups
	var b strings.Builder
	i := 0
	for i < len(s) {
		ch := s[i]
		if ch == '"' || ch == '`' || ch == '\'' {
			j := i + 1
			for j < len(s) && s[j] != ch {
				if s[j] == '\\' {
					j++
				}
				j++
			}
			b.WriteString(s[i:min(j+1, len(s))])
			i = j + 1
			continue
		}
		if ch == '(' || ch == '[' || ch == '{' {
			close := map[byte]byte{'(': ')', '[': ']', '{': '}'}[ch]
			d := 0
			j := i
			inStr := byte(0)
			for ; j < len(s); j++ {
				c := s[j]
				if inStr != 0 {
					if c == '\\' {
						j++
					} else if c == inStr {
						inStr = 0
					}
					continue
				}
				if c == '"' || c == '`' || c == '\'' {
					inStr = c
					continue
				}
				if c == '(' || c == '[' || c == '{' {
					d++
				} else if c == ')' || c == ']' || c == '}' {
					d--
					if d == 0 {
						break
					}
				}
			}
			if j >= len(s) {
				b.WriteString(s[i:])
				break
			}
			b.WriteByte(ch)
			b.WriteString(desugar(s[i+1 : j]))
			b.WriteByte(close)
			i = j + 1
			continue
		}
		b.WriteByte(ch)
		i++
	}
	flat := b.String()
	// commas at top level separate arguments: desugar each separately
	if parts := splitTopLevel(flat, ','); len(parts) > 1 {
		for k := range parts {
			parts[k] = desugarFlat(parts[k])
		}
		return strings.Join(parts, ",")
	}
	return desugarFlat(flat)
}

func desugarFlat(s string) string {
	if m := quantRe.FindStringSubmatch(s); m != nil {
		body := desugarFlat(s[len(m[0]):])
		return fmt.Sprintf(" %s__(func(%s %s) bool { return %s })", m[1], m[2], m[3], body)
	}
	// split on top-level ==> (right associative)
	d := 0
	inStr := byte(0)
	for i := 0; i+2 < len(s); i++ {
		ch := s[i]
		if inStr != 0 {
			if ch == '\\' {
				i++
			} else if ch == inStr {
				inStr = 0
			}
			continue
		}
		switch ch {
		case '"', '`', '\'':
			inStr = ch
		case '(', '[', '{':
			d++
		case ')', ']', '}':
			d--
		case '=':
			if d == 0 && s[i:i+3] == "==>" {
				return fmt.Sprintf("implies__(%s, %s)", s[:i], desugarFlat(s[i+3:]))
			}
		}
	}
	return s
}

func parseSpecExpr(text string) (ast.Expr, error) {
	d := desugar(text)
	e, err := parser.ParseExpr(d)
	if err != nil {
		return nil, fmt.Errorf("cannot parse %q (desugared %q): %v", text, d, err)
	}
	return e, nil
}

// AtCall is a region postcondition anchored structurally: it must hold, in the
// caller's state and over the caller's locals, immediately before every call of Callee.
type AtCall struct {
	Callee string
	Text   string
	Expr   ast.Expr
	Line   int
	File   string
	Hits   int
}
