package core

import (
	"fmt"
	"go/ast"
	"go/token"
	"go/types"
	"path/filepath"
	"sort"
	"strings"

	"golang.org/x/tools/go/ssa"
)

func (e *Engine) invokeKey(c *ssa.CallCommon) string {
	t := c.Value.Type()
	return fmt.Sprintf("(%s).%s", types.TypeString(t, func(p *types.Package) string {
		if p == e.TPkg {
			return ""
		}
		return p.Name()
	}), c.Method.Name())
}

// fnKey is the contract key of a function: package-local names are unqualified,
// external ones are qualified by package *name* (io.ReadFull, (*sync.Mutex).Lock).
func (e *Engine) fnKey(fn *ssa.Function) string {
	s := fn.String()
	if fn.Pkg != nil && fn.Pkg.Pkg == e.TPkg {
		return strings.ReplaceAll(s, fn.Pkg.Pkg.Path()+".", "")
	}
	// replace import paths by package names
	pkg := fn.Package()
	if pkg == nil && fn.Origin() != nil {
		pkg = fn.Origin().Package()
	}
	if pkg != nil {
		s = strings.ReplaceAll(s, pkg.Pkg.Path()+".", pkg.Pkg.Name()+".")
	}
	return s
}

func (e *Engine) contractFor(fn *ssa.Function) *Contract {
	return e.contractByKey(e.fnKey(fn))
}

// contractByKey looks a contract up for use at a call site. An assumed (trusted) contract
// that names properties is an assumption made for those properties only: it is not applied
// while another property is being checked.
func (e *Engine) contractByKey(key string) *Contract {
	c, ok := e.Contracts[key]
	if !ok {
		return nil
	}
	if c.Trusted && len(c.Props) > 0 && e.CurProp != "" && !hasProp(c.Props, e.CurProp) {
		return nil
	}
	return c
}

// scalarOnlyExternal: an external function whose parameters and results hold no
// pointers cannot write memory visible to the package under verification.
func (e *Engine) scalarOnlyExternal(fn *ssa.Function) bool {
	if fn.Pkg != nil && fn.Pkg.Pkg == e.TPkg {
		return false
	}
	sig := fn.Signature
	pure := func(t types.Type) bool {
		switch u := t.Underlying().(type) {
		case *types.Basic:
			return u.Kind() != types.UnsafePointer
		}
		return false
	}
	if sig.Recv() != nil && !pure(sig.Recv().Type()) {
		return false
	}
	for i := 0; i < sig.Params().Len(); i++ {
		if !pure(sig.Params().At(i).Type()) {
			return false
		}
	}
	return true
}

func (x *Exec) call(fr *frame, s *State, in *ssa.Call) {
	c := &in.Call
	args := make([]Value, len(c.Args))
	for i, a := range c.Args {
		args[i] = x.operand(fr, s, a)
	}
	fnv := x.operand(fr, s, c.Value)
	var res []Value
	if sc := c.StaticCallee(); sc != nil && x.E.fnKey(sc) == "binary.Read" {
		r, ok := x.binaryReadModel(fr, s, in)
		if !ok {
			// the loop havoc set (modelEffect) relies on the model; no silent fallback
			unsup("binary.Read outside the modelled pattern (reader created by bytes.NewReader for this one call, fixed-size integer target)")
		}
		res = r
	}
	if res == nil {
		res = x.callCommon(fr, s, c, fnv, args, in, in.Pos())
	}
	if s.Reach.S == "false" {
		return
	}
	if res == nil {
		return
	}
	nres := c.Signature().Results().Len()
	switch nres {
	case 0:
	case 1:
		v := res[0]
		v.T = in.Type()
		if v.Clo == nil && v.Loc == nil {
			for i := range v.L {
				v.L[i] = x.C.Define(in.Name(), v.L[i])
			}
		}
		fr.vals[in] = v
	default:
		out := Value{T: in.Type()}
		for _, r := range res {
			out.L = append(out.L, r.L...)
		}
		x.setVal(fr, in, out)
	}
}

// callCommon performs a call and returns the result values.
func (x *Exec) callCommon(fr *frame, s *State, c *ssa.CallCommon, fnv Value, args []Value, site ssa.Value, pos token.Pos) []Value {
	sig := c.Signature()
	if b, ok := c.Value.(*ssa.Builtin); ok {
		return x.builtin(fr, s, b, c, args, pos)
	}
	saved := x.curCall
	x.curCall = c
	defer func() { x.curCall = saved }()
	if c.IsInvoke() {
		key := x.E.invokeKey(c)
		x.atCallCheck(fr, s, key, append([]Value{fnv}, args...))
		x.nilCheckIface(fr, s, fnv, pos)
		if ct := x.E.contractByKey(key); ct != nil {
			ct.Used = true
			return x.applyContract(fr, s, ct, nil, c.Method.Name(), append([]Value{fnv}, args...), invokeParamNames(c), sig, pos)
		}
		if res, ok := x.invokeModel(fr, s, c, fnv, args, pos); ok {
			return res
		}
		if res, ok := x.devirtualize(fr, s, c, fnv, args, key, pos); ok {
			return res
		}
		return x.unknownCall(fr, s, key, nil, sig, pos)
	}
	callee := c.StaticCallee()
	var bindings []Value
	if callee == nil && fnv.Fn != nil {
		callee = fnv.Fn
	}
	if fnv.Clo != nil {
		bindings = fnv.Bind
	}
	if callee == nil {
		// a call through a local function variable may have an assumed contract ("localfn <name>")
		if u, ok := c.Value.(*ssa.UnOp); ok && u.Op == token.MUL {
			if a, ok := u.X.(*ssa.Alloc); ok && a.Comment != "" {
				// function-qualified key first ("localfn <function>.<name>"), then the bare local name
				key := "localfn " + a.Comment
				if a.Parent() != nil {
					qk := "localfn " + x.E.fnKey(a.Parent()) + "." + a.Comment
					x.atCallCheck(fr, s, qk, args)
					if x.E.contractByKey(qk) != nil {
						key = qk
					}
				}
				x.atCallCheck(fr, s, "localfn "+a.Comment, args)
				if ct := x.E.contractByKey(key); ct != nil {
					ct.Used = true
					var names []string
					for i := 0; i < sig.Params().Len(); i++ {
						names = append(names, fmt.Sprintf("arg%d", i))
					}
					return x.applyContract(fr, s, ct, nil, a.Comment, args, names, sig, pos)
				}
			}
		}
		// a call through a value of a named function type may have an assumed contract
		if n, ok := c.Value.Type().(*types.Named); ok {
			if ct := x.E.contractByKey("functype " + n.Obj().Name()); ct != nil {
				ct.Used = true
				var names []string
				for i := 0; i < sig.Params().Len(); i++ {
					nm := sig.Params().At(i).Name()
					if nm == "" || nm == "_" {
						nm = fmt.Sprintf("arg%d", i)
					}
					names = append(names, nm)
				}
				return x.applyContract(fr, s, ct, nil, n.Obj().Name(), args, names, sig, pos)
			}
		}
		return x.unknownCall(fr, s, "dynamic call", nil, sig, pos)
	}
	return x.callFunction(fr, s, callee, args, bindings, pos)
}

func invokeParamNames(c *ssa.CallCommon) []string {
	sig := c.Signature()
	names := []string{"recv"}
	for i := 0; i < sig.Params().Len(); i++ {
		nm := sig.Params().At(i).Name()
		if nm == "" || nm == "_" {
			nm = fmt.Sprintf("arg%d", i)
		}
		names = append(names, nm)
	}
	return names
}

func (x *Exec) nilCheckIface(fr *frame, s *State, v Value, pos token.Pos) {
	if !x.safety {
		return
	}
	x.C.Oblige(x.oblName(fr.fn, "nil"), "nil", x.pos(pos), "interface method receiver is not nil", s.Reach, Not(Eq(v.L[0], IntLit(0))))
}

func (x *Exec) callFunction(fr *frame, s *State, callee *ssa.Function, args []Value, bindings []Value, pos token.Pos) []Value {
	x.atCallCheck(fr, s, x.E.fnKey(callee), args)
	if res, ok := x.stdlibModel(fr, s, callee, args, pos, false); ok {
		return res
	}
	ct := x.E.contractFor(callee)
	if ct != nil && ct.Rec {
		return []Value{x.recCall(s, callee, args)}
	}
	isLocalClosure := callee.Parent() != nil
	if ct != nil && !ct.Inline && !(ct.Pure && len(ct.Ensures) == 0) {
		ct.Used = true
		var names []string
		for _, p := range callee.Params {
			names = append(names, p.Name())
		}
		if len(names) == 0 {
			sig := callee.Signature
			if sig.Recv() != nil {
				names = append(names, sig.Recv().Name())
			}
			for i := 0; i < sig.Params().Len(); i++ {
				names = append(names, sig.Params().At(i).Name())
			}
		}
		return x.applyContract(fr, s, ct, callee, callee.Name(), args, names, callee.Signature, pos)
	}
	if ct == nil && !isLocalClosure && x.E.autoPure(callee, 0) {
		x.C.Trusted["small loop-free, store-free callees without contract are inlined (exact) instead of being abstracted"] = true
		exit, results, _ := x.run(callee, s, args, nil, nil, true)
		if exit == nil {
			s.Reach = False
			return nil
		}
		*s = *exit
		return results
	}
	if (ct != nil && (ct.Inline || ct.Pure)) || (isLocalClosure && len(callee.Blocks) > 0) {
		if ct != nil {
			ct.Used = true
		}
		saved := x.safety
		if ct != nil && ct.NoSafety {
			x.safety = false
		}
		exit, results, _ := x.run(callee, s, args, bindings, ct, true)
		x.safety = saved
		if exit == nil {
			s.Reach = False
			return nil
		}
		*s = *exit
		return results
	}
	if ct == nil && !isLocalClosure && x.autoDepth < 3 && x.E.autoInline(callee) {
		// a function introduced after the contracts were written (not in the baseline): verified
		// through, i.e. executed in place; "atcall" anchors of the unit also bind inside it
		x.C.Trusted["functions that are not in /verif/baseline_funcs.json and have no contract are executed in place (exact) instead of being abstracted: "+x.E.fnKey(callee)] = true
		x.autoDepth++
		x.autoParents = append(x.autoParents, fr)
		exit, results, _ := x.run(callee, s, args, nil, nil, true)
		x.autoParents = x.autoParents[:len(x.autoParents)-1]
		x.autoDepth--
		if exit == nil {
			s.Reach = False
			return nil
		}
		*s = *exit
		return results
	}
	if x.E.scalarOnlyExternal(callee) {
		// deterministic-unknown: uninterpreted function of the arguments
		return x.uninterpretedCall(s, callee, args)
	}
	return x.unknownCall(fr, s, x.E.fnKey(callee), callee, callee.Signature, pos)
}

func (x *Exec) uninterpretedCall(s *State, callee *ssa.Function, args []Value) []Value {
	var as []Term
	var sorts []Sort
	for _, a := range args {
		for _, l := range a.L {
			as = append(as, l)
			sorts = append(sorts, l.Sort)
		}
	}
	res := callee.Signature.Results()
	out := make([]Value, res.Len())
	for i := 0; i < res.Len(); i++ {
		t := res.At(i).Type()
		ls := x.E.layout(t)
		v := Value{T: t, L: make([]Term, len(ls))}
		pointerish := false
		for _, srt := range ls {
			if srt == SInt {
				pointerish = true
			}
		}
		if pointerish {
			out[i] = x.freshValue(s, callee.Name(), t)
			continue
		}
		for k, srt := range ls {
			name := fmt.Sprintf("uf_%s_%d_%d", sanitize(x.E.fnKey(callee)), i, k)
			x.C.DeclareFun(name, sorts, srt)
			if len(as) == 0 {
				v.L[k] = Term{"(" + name + ")", srt}
				v.L[k] = Term{name, srt}
			} else {
				v.L[k] = app(srt, name, as...)
			}
		}
		x.assumeTypeInv(s, v)
		out[i] = v
	}
	x.C.Trusted["external scalar-only function treated as a deterministic uninterpreted function: "+x.E.fnKey(callee)] = true
	return out
}

// unknownCall havocs the heap and returns unconstrained results.
func (x *Exec) unknownCall(fr *frame, s *State, what string, callee *ssa.Function, sig *types.Signature, pos token.Pos) []Value {
	x.C.Abstracted["call without contract (heap havoc): "+what]++
	x.frameCheckAll(fr, s, pos, "call without contract ("+what+")")
	pre := map[Sort]Term{}
	for k, h := range s.Heaps {
		pre[k] = h
	}
	x.havocHeaps(s, nil, "call")
	x.havocGhosts(s, callee)
	x.assumePreserved(s, pre, callee, callee == nil)
	res := sig.Results()
	out := make([]Value, res.Len())
	for i := 0; i < res.Len(); i++ {
		out[i] = x.freshValue(s, "r_"+sanitize(what), res.At(i).Type())
	}
	return out
}

// applyContract: assert requires, havoc modifies, assume ensures.
func (x *Exec) applyContract(fr *frame, s *State, ct *Contract, callee *ssa.Function, name string, args []Value, names []string, sig *types.Signature, pos token.Pos) []Value {
	scopeFn := callee
	if scopeFn == nil {
		scopeFn = fr.fn
	}
	env := &specEnv{x: x, fn: scopeFn, st: s, names: map[string]Value{}}
	for i, n := range names {
		if i < len(args) {
			env.names[n] = args[i]
		}
	}
	if callee == nil {
		// invoke: receiver is args[0] named recv
	}
	for k, rq := range ct.Requires {
		if !x.safety {
			// units verified without safety obligations assume their callees' preconditions
			x.C.Assume(Implies(s.Reach, env.evalAssume(rq.Expr)))
			x.C.Trusted["callee preconditions are assumed (not checked) in units marked nosafety"] = true
			continue
		}
		x.C.Oblige(fmt.Sprintf("%s#call.%s.requires%d.%d", shortFn(fr.fn), sanitize(ct.Key), k, x.bump(fr, "callreq"+ct.Key)), "requires", x.pos(pos), rq.Text, s.Reach, env.evalGoal(rq.Expr))
	}
	pre := s.Clone()
	if ct.Modifies == nil {
		x.frameCheckAll(fr, s, pos, "call of "+ct.Key+" (contract without modifies clause)")
		x.havocHeaps(s, nil, "call")
		x.assumePreserved(s, pre.Heaps, callee, callee == nil)
	} else {
		for _, t := range x.modTargets(env, ct.Modifies) {
			switch t.kind {
			case "loc":
				x.frameCheckLoc(fr, s, t.ref, t.off, t.n, pos)
			case "obj":
				x.frameCheckObj(fr, s, t.ref, pos, "callee's modifies obj()")
			case "elems":
				x.frameCheckRange(fr, s, t.ref, t.off, t.len, pos, "callee's modifies elems()")
			case "maps":
				x.frameCheckMap(fr, s, t.ref, pos)
			}
		}
		x.havocModifies(env, s, ct.Modifies)
	}
	if ct.Modifies != nil {
		// the callee may allocate: results may be fresh objects
		nf := x.C.Fresh("frontier", SInt)
		x.C.Assume(Implies(s.Reach, App(SBool, "<=", s.Frontier, nf)))
		s.Frontier = nf
	}
	res := sig.Results()
	out := make([]Value, res.Len())
	for i := 0; i < res.Len(); i++ {
		out[i] = x.freshValue(s, "r_"+sanitize(name), res.At(i).Type())
	}
	post := &specEnv{x: x, fn: scopeFn, st: s, old: pre, names: env.names}
	post.names = map[string]Value{}
	for k, v := range env.names {
		post.names[k] = v
	}
	bindResults(post.names, sig, out)
	// ghost counters: those this contract updates explicitly move from their pre-call
	// value; every other counter the callee can reach an emitter of is forgotten
	// (the callee's ensures may then constrain it).
	explicit := map[string]bool{}
	for _, g := range ct.Ghost {
		name := g.Text
		if i := strings.IndexAny(name, "+="); i >= 0 {
			name = strings.TrimSpace(name[:i])
		}
		explicit[name] = true
	}
	preGhost := map[string]Term{}
	for g := range x.E.ghostEmitters() {
		preGhost[g] = x.ghost(s, g)
	}
	if callee != nil {
		x.havocGhosts(s, callee)
	}
	for g := range explicit {
		if t, ok := preGhost[g]; ok {
			s.Ghost[g] = t
		}
	}
	for _, g := range ct.Ghost {
		x.ghostUpdate(post, s, g)
	}
	for _, en := range ct.Ensures {
		x.C.Assume(Implies(s.Reach, post.evalAssume(en.Expr)))
	}
	if ct.Trusted {
		x.C.Trusted["assumed contract of "+ct.Key] = true
	}
	return out
}

func (x *Exec) bump(fr *frame, k string) int {
	key := fr.fn.String() + "#" + k
	x.oblCount[key]++
	return x.oblCount[key]
}

// bindResults names results: declared names, result / retN, and err for a trailing error.
func bindResults(names map[string]Value, sig *types.Signature, out []Value) {
	res := sig.Results()
	for i := 0; i < res.Len(); i++ {
		names[fmt.Sprintf("ret%d", i)] = out[i]
		if n := res.At(i).Name(); n != "" && n != "_" {
			names[n] = out[i]
		}
	}
	if res.Len() == 1 {
		names["result"] = out[0]
	}
	if res.Len() > 0 {
		last := res.At(res.Len() - 1)
		if types.TypeString(last.Type(), nil) == "error" {
			if _, taken := names["err"]; !taken || last.Name() == "" || last.Name() == "err" {
				names["err"] = out[res.Len()-1]
			}
		}
	}
}

// ghostUpdate executes "name += expr" or "name = expr".
func (x *Exec) ghostUpdate(env *specEnv, s *State, g *Clause) {
	text := g.Text
	if i := strings.Index(text, "+="); i >= 0 {
		name := strings.TrimSpace(text[:i])
		e, err := parseSpecExpr(text[i+2:])
		if err != nil {
			unsup("ghost clause: %v", err)
		}
		d := env.toBV64(env.eval(e))
		s.Ghost[name] = x.C.Define("G_"+name, BVOp("bvadd", x.ghost(s, name), d))
		return
	}
	if i := strings.Index(text, "="); i >= 0 {
		name := strings.TrimSpace(text[:i])
		e, err := parseSpecExpr(text[i+1:])
		if err != nil {
			unsup("ghost clause: %v", err)
		}
		s.Ghost[name] = x.C.Define("G_"+name, env.toBV64(env.eval(e)))
		return
	}
	unsup("ghost clause %q", text)
}

// modTarget is one location set of a modifies clause.
type modTarget struct {
	kind     string // "loc" | "obj" | "elems" | "maps"
	ref, off Term
	n        int64  // loc: number of leaves
	len      Term   // elems: length in leaves
	sorts    []Sort // loc: the sort of each leaf; elems: the sorts of an element
}

func (x *Exec) modTargets(env *specEnv, m *Clause) []modTarget {
	var out []modTarget
	for _, e := range m.List {
		if call, ok := e.(interface{ End() token.Pos }); ok {
			_ = call
		}
		if ce, ok := isCallTo(e, "obj"); ok {
			v := env.eval(ce)
			out = append(out, modTarget{kind: "obj", ref: v.L[0]})
			continue
		}
		if ce, ok := isCallTo(e, "elems"); ok {
			v := env.eval(ce)
			sl, ok := v.T.Underlying().(*types.Slice)
			if !ok {
				unsup("elems() of non-slice")
			}
			out = append(out, modTarget{kind: "elems", ref: v.L[0], off: v.L[1], len: mulOff(v.L[2], x.stride(sl.Elem())), sorts: x.E.memLeafSorts(sl.Elem())})
			continue
		}
		if ce, ok := isCallTo(e, "maps"); ok {
			v := env.eval(ce)
			out = append(out, modTarget{kind: "maps", ref: v.L[0]})
			continue
		}
		ref, off, t := env.addrOf(e)
		out = append(out, modTarget{kind: "loc", ref: ref, off: off, n: x.E.size(t), sorts: x.E.memLeafSorts(t)})
	}
	return out
}

// inTargets: is heap location (r, o) covered by the targets?
func inTargets(ts []modTarget, r, o Term) Term {
	var cs []Term
	for _, t := range ts {
		switch t.kind {
		case "obj":
			cs = append(cs, Eq(r, t.ref))
		case "elems":
			cs = append(cs, And(Eq(r, t.ref), BVCmp("bvult", BVOp("bvsub", o, t.off), t.len)))
		case "loc":
			if t.n == 1 {
				cs = append(cs, And(Eq(r, t.ref), Eq(o, t.off)))
			} else {
				cs = append(cs, And(Eq(r, t.ref), BVCmp("bvult", BVOp("bvsub", o, t.off), BVLitI(64, t.n))))
			}
		}
	}
	return Or(cs...)
}

func (x *Exec) havocModifies(env *specEnv, s *State, m *Clause) {
	ts := x.modTargets(env, m)
	if len(ts) == 0 {
		return
	}
	for _, t := range ts {
		switch t.kind {
		case "maps":
			// havoc the map object: fresh dom / values at that ref
			for k := range s.MapDom {
				d := x.mapDom(s, k)
				s.MapDom[k] = x.C.Define("MD", Store(d, t.ref, x.C.Fresh("dom", Sort("(Array "+string(k)+" Bool)"))))
			}
			x.baseCounter++
			// maps not yet materialised: conservatively new generation
			s.Base = fmt.Sprintf("c%d", x.baseCounter)
			s.MapVal = map[string]Term{}
		case "loc":
			// explicit stores of fresh leaves: quantifier-free and exact
			for i, k := range t.sorts {
				if k == "" {
					continue
				}
				h := s.Heaps[k]
				obj := Select(h, t.ref, ObjSort(k))
				s.Heaps[k] = x.C.Define("H", Store(h, t.ref, Store(obj, offAdd(t.off, int64(i)), x.C.Fresh("mod", k))))
			}
		case "obj":
			for _, k := range AllLeafSorts {
				s.Heaps[k] = x.C.Define("H", Store(s.Heaps[k], t.ref, x.C.Fresh("modobj", ObjSort(k))))
			}
		case "elems":
			seen := map[Sort]bool{}
			for _, k := range t.sorts {
				if seen[k] || k == "" {
					continue
				}
				seen[k] = true
				h := s.Heaps[k]
				old := Select(h, t.ref, ObjSort(k))
				obj := x.C.Fresh("modelems", ObjSort(k))
				o := x.C.BoundVar("o", SBV64)
				x.C.Assume(Implies(s.Reach, Forall([]Term{o}, Or(BVCmp("bvult", BVOp("bvsub", o, t.off), t.len), Eq(Select(obj, o, k), Select(old, o, k))))))
				s.Heaps[k] = x.C.Define("H", Store(h, t.ref, obj))
			}
		}
	}
}

// autoPure: a package function that is loop-free, writes nothing but its own
// locals, and calls only functions of the same kind or modelled pure library
// functions. Such callees are inlined exactly.
func (e *Engine) autoPure(fn *ssa.Function, depth int) bool {
	if r, ok := e.autoPureCache[fn]; ok {
		return r
	}
	if depth > 4 || len(fn.Blocks) == 0 || fn.Pkg != e.Pkg {
		return false
	}
	e.autoPureCache[fn] = false // recursion guard
	n := 0
	for _, b := range fn.Blocks {
		for _, s := range b.Succs {
			if s.Dominates(b) {
				return false
			}
		}
		for _, in := range b.Instrs {
			n++
			switch in := in.(type) {
			case *ssa.Store:
				a := rootAlloc(in.Addr)
				if a == nil || a.Heap {
					return false
				}
			case *ssa.Alloc:
				if in.Heap {
					return false
				}
			case *ssa.Call:
				if _, ok := in.Call.Value.(*ssa.Builtin); ok {
					switch in.Call.Value.Name() {
					case "len", "cap", "min", "max", "ssa:deferstack":
						continue
					}
					return false
				}
				if in.Call.IsInvoke() && (in.Call.Method.Name() == "Error" || in.Call.Method.Name() == "String") && in.Call.Signature().Params().Len() == 0 {
					continue
				}
				callee := in.Call.StaticCallee()
				if callee == nil {
					return false
				}
				if eff, ok := e.modelEffect(callee); ok && len(eff) == 0 {
					continue
				}
				if !e.autoPure(callee, depth+1) {
					return false
				}
			case *ssa.MapUpdate, *ssa.Go, *ssa.Defer, *ssa.Send, *ssa.Select, *ssa.MakeClosure, *ssa.MakeMap, *ssa.MakeSlice, *ssa.MakeChan, *ssa.Panic, *ssa.Range, *ssa.Next:
				return false
			case *ssa.UnOp:
				if in.Op == token.ARROW {
					return false
				}
			}
		}
	}
	if n > 400 {
		return false
	}
	e.autoPureCache[fn] = true
	return true
}

// atCallCheck evaluates the unit's "atcall" region postconditions anchored at calls of key;
// the call's arguments (receiver first) are visible as callarg0, callarg1, ...
func (x *Exec) atCallCheck(fr *frame, s *State, key string, args []Value) {
	// inside a function executed in place because it is new (autoInline), the anchors of the
	// enclosing unit apply, evaluated over that unit's locals
	if fr.contract == nil && fr.autoParent != nil {
		x.atCallCheck(fr.autoParent, s, key, args)
		return
	}
	if fr.contract != nil && len(fr.contract.AtCalls) > 0 {
		for k, ac := range fr.contract.AtCalls {
			if ac.Callee != key {
				continue
			}
			env := x.invEnv(fr, s)
			for i, a := range args {
				env = env.with(fmt.Sprintf("callarg%d", i), a)
			}
			// a call site where the locals the assertion names are not in scope is not the anchored one;
			// in a top-level disjunction (alternatives for several sites of the same callee) a
			// disjunct that names locals not in scope at this site is dropped, not the whole clause
			tryEval := func(e ast.Expr) (t Term, ok bool) {
				defer func() {
					if r := recover(); r != nil {
						if u, isU := r.(unsupported); isU && strings.Contains(u.msg, "unknown identifier") {
							ok = false
							return
						}
						panic(r)
					}
				}()
				return env.evalGoal(e), true
			}
			var disjuncts []ast.Expr
			var split func(e ast.Expr)
			split = func(e ast.Expr) {
				for {
					p, isP := e.(*ast.ParenExpr)
					if !isP {
						break
					}
					e = p.X
				}
				if b, isB := e.(*ast.BinaryExpr); isB && b.Op == token.LOR {
					split(b.X)
					split(b.Y)
					return
				}
				disjuncts = append(disjuncts, e)
			}
			split(ac.Expr)
			var prop Term
			ok := false
			if len(disjuncts) <= 1 {
				prop, ok = tryEval(ac.Expr)
			} else {
				var alts []Term
				for _, d := range disjuncts {
					if t, dok := tryEval(d); dok {
						alts = append(alts, t)
					}
				}
				if len(alts) > 0 {
					prop, ok = Or(alts...), true
				}
			}
			if !ok {
				continue
			}
			ac.Hits++
			x.obligeKnown(env, fmt.Sprintf("%s#atcall%d.%d", x.C.Unit, k, x.bump(fr, fmt.Sprintf("atcall%d", k))), "atcall",
				fmt.Sprintf("%s:%d", filepath.Base(ac.File), ac.Line), "before "+ac.Callee+": "+ac.Text, s.Reach, prop)
		}
	}
}

// devirtualize: an interface method call whose possible targets inside the package are few
// (methods of that name and signature with pointer receivers) is executed as a case split on
// the dynamic type of the receiver: under "the dynamic type is *T" the method of T is called
// (through its contract, or in place); under "none of them" the call is an unknown call.
func (x *Exec) devirtualize(fr *frame, s *State, c *ssa.CallCommon, fnv Value, args []Value, key string, pos token.Pos) ([]Value, bool) {
	if x.C.noDefine > 0 || len(fnv.L) != 3 {
		return nil, false
	}
	var cands []*ssa.Function
	for _, fn := range x.E.dynTargets(c) {
		if fn.Signature.Recv() == nil || !isPointer(fn.Signature.Recv().Type()) || len(fn.Blocks) == 0 {
			continue
		}
		if !types.Implements(fn.Signature.Recv().Type(), c.Value.Type().Underlying().(*types.Interface)) {
			continue
		}
		ct := x.E.contractFor(fn)
		if ct == nil && !x.E.autoPure(fn, 0) {
			return nil, false // a target without contract: nothing is gained over the unknown call
		}
		cands = append(cands, fn)
	}
	if len(cands) == 0 || len(cands) > 6 {
		return nil, false
	}
	sort.Slice(cands, func(i, j int) bool { return x.E.fnKey(cands[i]) < x.E.fnKey(cands[j]) })
	sig := c.Signature()
	var edges []edge
	var results [][]Value
	var conds []Term
	for _, fn := range cands {
		rt := fn.Signature.Recv().Type()
		cond := Eq(fnv.L[0], IntLit(x.E.typeID(rt)))
		conds = append(conds, cond)
		st := s.Clone()
		st.Reach = x.C.Define("br", And(s.Reach, cond))
		recv := Value{T: rt, L: []Term{fnv.L[1], fnv.L[2]}, NN: true}
		res := x.callFunction(fr, st, fn, append([]Value{recv}, args...), nil, pos)
		if st.Reach.S == "false" || res == nil && sig.Results().Len() > 0 {
			continue
		}
		edges = append(edges, edge{st: st, cond: st.Reach})
		results = append(results, res)
	}
	other := s.Clone()
	other.Reach = x.C.Define("br", And(s.Reach, Not(Or(conds...))))
	ores := x.unknownCall(fr, other, key, nil, sig, pos)
	edges = append(edges, edge{st: other, cond: other.Reach})
	results = append(results, ores)
	merged := x.merge(edges)
	*s = *merged
	out := make([]Value, sig.Results().Len())
	for i := range out {
		t := sig.Results().At(i).Type()
		v := Value{T: t, L: make([]Term, len(results[0][i].L))}
		for l := range v.L {
			ts := make([]Term, len(edges))
			cs := make([]Term, len(edges))
			for k := range edges {
				ts[k] = results[k][i].L[l]
				cs[k] = edges[k].cond
			}
			v.L[l] = x.join("dv", cs, ts)
		}
		out[i] = v
	}
	x.C.Trusted["interface method calls with few package-internal targets are case-split on the receiver's dynamic type"] = true
	return out, true
}
