package core

import (
	"strings"
	"go/token"
	"fmt"
	"go/types"
	"sort"

	"golang.org/x/tools/go/ssa"
)

// join merges per-edge terms into one: a fresh constant with guarded
// equalities, or a nested ite when constants may not be introduced.
func (x *Exec) join(name string, conds []Term, ts []Term) Term {
	if sameTerms(ts) {
		return ts[0]
	}
	if x.C.noDefine > 0 {
		out := ts[len(ts)-1]
		for i := len(ts) - 2; i >= 0; i-- {
			out = Ite(conds[i], ts[i], out)
		}
		return out
	}
	out := ts[len(ts)-1]
	for i := len(ts) - 2; i >= 0; i-- {
		out = Ite(conds[i], ts[i], out)
	}
	return x.C.Define(name, out)
}

// rootAlloc follows FieldAddr/IndexAddr chains to the allocation they address.
func rootAlloc(v ssa.Value) *ssa.Alloc {
	for {
		switch t := v.(type) {
		case *ssa.Alloc:
			return t
		case *ssa.FieldAddr:
			v = t.X
		case *ssa.IndexAddr:
			v = t.X
		default:
			return nil
		}
	}
}

type havocSet struct {
	cells map[*ssa.Alloc]bool
	sorts map[Sort]bool
	all   bool
	maps  bool
	clos  bool // a closure may run: it can write every captured (promoted) variable
}

func (x *Exec) loopHavocSet(fr *frame, li *loopInfo) *havocSet {
	hs := &havocSet{cells: map[*ssa.Alloc]bool{}, sorts: map[Sort]bool{}}
	var blocks []*ssa.BasicBlock
	for b := range li.body {
		blocks = append(blocks, b)
	}
	x.scanHavoc(fr, blocks, hs, nil, 0)
	return hs
}

// resolveClosure: the closure a called value denotes, when it is a MakeClosure
// directly or a load of a local variable that only ever holds one MakeClosure.
func resolveClosure(v ssa.Value) *ssa.MakeClosure {
	switch t := v.(type) {
	case *ssa.MakeClosure:
		return t
	case *ssa.UnOp:
		a, ok := t.X.(*ssa.Alloc)
		if !ok || a.Referrers() == nil {
			return nil
		}
		var mc *ssa.MakeClosure
		for _, r := range *a.Referrers() {
			if st, ok := r.(*ssa.Store); ok && st.Addr == a {
				m, ok := st.Val.(*ssa.MakeClosure)
				if !ok || (mc != nil && mc != m) {
					return nil
				}
				mc = m
			}
		}
		return mc
	}
	return nil
}

// scanHavoc accumulates what the given blocks may write. bind maps the free
// variables of a closure body to the values bound at its MakeClosure.
func (x *Exec) scanHavoc(fr *frame, blocks []*ssa.BasicBlock, hs *havocSet, bind map[*ssa.FreeVar]ssa.Value, depth int) {
	addType := func(t types.Type) {
		for _, s := range x.E.memSorts(t) {
			hs.sorts[s] = true
		}
	}
	root := func(v ssa.Value) *ssa.Alloc {
		for {
			switch t := v.(type) {
			case *ssa.Alloc:
				return t
			case *ssa.FieldAddr:
				v = t.X
			case *ssa.IndexAddr:
				v = t.X
			case *ssa.FreeVar:
				if b, ok := bind[t]; ok {
					v = b
					continue
				}
				return nil
			default:
				return nil
			}
		}
	}
	for _, b := range blocks {
		for _, in := range b.Instrs {
			switch in := in.(type) {
			case *ssa.Store:
				if a := root(in.Addr); a != nil && x.localCell(a) {
					hs.cells[a] = true
				} else {
					addType(in.Val.Type())
				}
			case *ssa.Alloc:
				if x.localCell(in) {
					hs.cells[in] = true
				} else {
					addType(deref(in.Type()))
				}
			case *ssa.MapUpdate:
				hs.maps = true
			case *ssa.MakeMap:
				hs.maps = true
			case *ssa.MakeSlice:
				addType(in.Type().Underlying().(*types.Slice).Elem())
			case *ssa.MakeInterface:
				if !isPointer(in.X.Type()) && !isInterface(in.X.Type()) {
					addType(in.X.Type())
				}
			case *ssa.Convert:
				if _, ok := in.Type().Underlying().(*types.Slice); ok {
					hs.sorts[SBV8] = true
					hs.sorts[SBV32] = true
				}
			case *ssa.Call:
				if mc := resolveClosure(in.Call.Value); mc != nil && depth < 3 {
					fn := mc.Fn.(*ssa.Function)
					nb := map[*ssa.FreeVar]ssa.Value{}
					for i, fv := range fn.FreeVars {
						bv := mc.Bindings[i]
						// a binding that is itself a free variable of the enclosing closure
						if ofv, ok := bv.(*ssa.FreeVar); ok {
							if ob, ok := bind[ofv]; ok {
								bv = ob
							}
						}
						nb[fv] = bv
					}
					x.scanHavoc(fr, fn.Blocks, hs, nb, depth+1)
					continue
				}
				x.callHavoc(fr, &in.Call, hs)
			case *ssa.Defer, *ssa.Go:
				hs.all = true
			}
		}
	}
}

// callHavoc over-approximates what a call inside a loop may write.
func (x *Exec) callHavoc(fr *frame, c *ssa.CallCommon, hs *havocSet) {
	if b, ok := c.Value.(*ssa.Builtin); ok {
		switch b.Name() {
		case "append", "copy":
			if sl, ok := c.Args[0].Type().Underlying().(*types.Slice); ok {
				for _, s := range x.E.memSorts(sl.Elem()) {
					hs.sorts[s] = true
				}
			}
		case "delete", "clear":
			hs.maps = true
			hs.all = hs.all || b.Name() == "clear"
		}
		return
	}
	callee := c.StaticCallee()
	if callee == nil && !c.IsInvoke() {
		if n, ok := c.Value.Type().(*types.Named); ok {
			if ct := x.E.contractByKey("functype " + n.Obj().Name()); ct != nil && ct.Modifies != nil && len(ct.Modifies.List) == 0 {
				return
			}
		}
		hs.clos = true
	}
	if callee != nil && callee.Parent() != nil {
		hs.clos = true
	}
	if callee == nil {
		if c.IsInvoke() {
			if ct := x.E.contractByKey(x.E.invokeKey(c)); ct != nil && ct.Modifies != nil && len(ct.Modifies.List) == 0 {
				return
			}
		}
		hs.all = true
		return
	}
	if eff, ok := x.E.modelEffect(callee); ok {
		for _, s := range eff {
			hs.sorts[s] = true
		}
		return
	}
	ct := x.E.contractFor(callee)
	if ct != nil && (ct.Pure || (ct.Modifies != nil && len(ct.Modifies.List) == 0)) {
		return
	}
	if ct == nil && x.E.scalarOnlyExternal(callee) {
		return
	}
	if len(callee.Blocks) > 0 && x.havocDepth < 3 && ((ct != nil && ct.Inline) || (ct == nil && callee.Parent() == nil && (x.E.autoPure(callee, 0) || x.E.autoInline(callee)))) {
		// callees that are executed in place: what their bodies write
		x.havocDepth++
		x.scanHavoc(fr, callee.Blocks, hs, nil, 1)
		x.havocDepth--
		return
	}
	hs.all = true
}

func (x *Exec) loopContract(fr *frame, li *loopInfo) *LoopContract {
	if fr.contract == nil {
		return nil
	}
	return fr.contract.Loops[li.ordinal]
}

func (x *Exec) invEnv(fr *frame, s *State) *specEnv {
	env := &specEnv{x: x, fn: fr.fn, fr: fr, st: s, old: fr.entrySt, names: map[string]Value{}}
	// entry values of parameters are available as name0 (Gobra style: lo0)
	env.params = map[string]Value{}
	for i, p := range fr.fn.Params {
		env.names[p.Name()+"0"] = fr.params[i]
		env.params[p.Name()] = fr.params[i]
	}
	return env
}

func (x *Exec) enterLoop(fr *frame, li *loopInfo, s *State) *State {
	lc := x.loopContract(fr, li)
	pos := ""
	if len(li.header.Instrs) > 0 {
		pos = x.pos(li.header.Instrs[0].Pos())
	}
	if lc != nil {
		env := x.invEnv(fr, s)
		for k, inv := range lc.Invariants {
			x.C.Oblige(fmt.Sprintf("%s#loop%d.inv%d.entry", shortFn(fr.fn), li.ordinal, k), "invariant", pos, inv.Text, s.Reach, env.evalGoal(inv.Expr))
		}
	}
	hs := x.loopHavocSet(fr, li)
	// compiler-generated range counters: -1 <= rangeindex (checked like a declared invariant)
	var autoInv []*ssa.Alloc
	for a := range hs.cells {
		if a.Comment == "rangeindex" && a.Parent() == fr.fn {
			if _, ok := s.Cells[a]; ok {
				autoInv = append(autoInv, a)
			}
		}
	}
	sort.Slice(autoInv, func(i, j int) bool { return autoInv[i].Pos() < autoInv[j].Pos() })
	riInv := func(st *State, a *ssa.Alloc) Term {
		v := st.Cells[a].L[0]
		return And(BVCmp("bvsle", BVLitI(64, -1), v), BVCmp("bvsle", v, BVLitI(64, 1<<40)))
	}
	for k, a := range autoInv {
		x.C.Oblige(fmt.Sprintf("%s#loop%d.rangeindex%d.entry", shortFn(fr.fn), li.ordinal, k), "invariant", pos, "range counter >= -1 (automatic)", s.Reach, riInv(s, a))
	}
	fr.autoInv[li.header] = autoInv
	n := s.Clone()
	if hs.clos {
		for a := range n.Cells {
			if a.Heap {
				hs.cells[a] = true
			}
		}
	}
	for a := range hs.cells {
		if old, ok := n.Cells[a]; ok {
			n.Cells[a] = x.freshValue(n, a.Comment, old.T)
		}
	}
	// map iterators advanced in the body: the set of keys produced so far is loop state
	for b := range li.body {
		for _, in := range b.Instrs {
			if nx, ok := in.(*ssa.Next); ok && !nx.IsString {
				if it, ok := nx.Iter.(*ssa.Range); ok {
					if cur, tracked := n.Iter[it]; tracked {
						n.Iter[it] = x.C.Fresh("iterseen", cur.Sort)
					}
				}
			}
		}
	}
	// ghost counters: pin the ones the body cannot bump, forget the ones it can
	if em := x.E.ghostEmitters(); len(em) > 0 {
		if x.E.callees == nil {
			x.E.buildCallGraph()
		}
		reach := map[string]bool{}
		for b := range li.body {
			for _, in := range b.Instrs {
				ci, ok := in.(ssa.CallInstruction)
				if !ok {
					continue
				}
				if _, isGo := in.(*ssa.Go); isGo {
					continue
				}
				c := ci.Common()
				if _, isB := c.Value.(*ssa.Builtin); isB {
					continue
				}
				if callee := c.StaticCallee(); callee != nil {
					reach[x.E.fnKey(callee)] = true
					if callee.Pkg == x.E.Pkg || (callee.Pkg == nil && callee.Origin() != nil && callee.Origin().Pkg == x.E.Pkg) {
						for k := range x.E.reachKeys(callee) {
							reach[k] = true
						}
					}
					continue
				}
				if c.IsInvoke() {
					reach[x.E.invokeKey(c)] = true
				} else if u, ok := c.Value.(*ssa.UnOp); ok && u.Op == token.MUL {
					if a, ok := u.X.(*ssa.Alloc); ok && a.Comment != "" {
						reach["localfn "+a.Comment] = true
						if a.Parent() != nil {
							reach["localfn "+x.E.fnKey(a.Parent())+"."+a.Comment] = true
						}
					}
				}
				for k := range x.E.dynReach(c) {
					reach[k] = true
				}
			}
		}
		for g, fns := range em {
			bumped := false
			for f := range fns {
				if reach[f] {
					bumped = true
					break
				}
			}
			if bumped {
				n.Ghost[g] = x.C.Fresh("G_"+g, SBV64)
			} else {
				n.Ghost[g] = x.ghost(n, g)
			}
		}
	}
	switch {
	case hs.all:
		pre := map[Sort]Term{}
		for k, h := range n.Heaps {
			pre[k] = h
		}
		x.havocHeaps(n, nil, "loop")
		x.assumeFrame(n, AllLeafSorts)
		x.loopPreserved(fr, li, n, pre)
	default:
		var sorts []Sort
		for _, k := range AllLeafSorts {
			if hs.sorts[k] {
				sorts = append(sorts, k)
			}
		}
		if len(sorts) > 0 {
			x.havocHeaps(n, sorts, "loop")
			x.assumeFrame(n, sorts)
		}
		if hs.maps {
			x.baseCounter++
			n.Base = fmt.Sprintf("l%d", x.baseCounter)
			n.MapDom = map[Sort]Term{}
			n.MapVal = map[string]Term{}
			nf := x.C.Fresh("frontier", SInt)
			x.C.Assume(Implies(n.Reach, App(SBool, "<=", n.Frontier, nf)))
			n.Frontier = nf
		}
	}
	n.IterFrontier = n.Frontier
	defer func() {
		n.HeadSt = n.Clone()
		if fr.headSt == nil {
			fr.headSt = map[*ssa.BasicBlock]*State{}
		}
		fr.headSt[li.header] = n.HeadSt
	}()
	for _, a := range autoInv {
		x.C.Assume(Implies(n.Reach, riInv(n, a)))
	}
	if lc != nil {
		env := x.invEnv(fr, n)
		for _, inv := range lc.Invariants {
			x.C.Assume(Implies(n.Reach, env.evalAssume(inv.Expr)))
		}
		if lc.Decreases != nil {
			v := env.eval(lc.Decreases.Expr)
			fr.variants[li.header] = []Term{env.toBV64(v)}
		}
	}
	return n
}

func (x *Exec) backEdge(fr *frame, li *loopInfo, s *State, cond Term) {
	lc := x.loopContract(fr, li)
	for k, a := range fr.autoInv[li.header] {
		if c, ok := s.Cells[a]; ok {
			v := c.L[0]
			x.C.Oblige(fmt.Sprintf("%s#loop%d.rangeindex%d.preserved.%d", shortFn(fr.fn), li.ordinal, k, x.bump(fr, "ri")), "invariant", "", "range counter >= -1 (automatic)", cond,
				And(BVCmp("bvsle", BVLitI(64, -1), v), BVCmp("bvsle", v, BVLitI(64, 1<<40))))
		}
	}
	if lc == nil {
		return
	}
	pos := ""
	if len(li.header.Instrs) > 0 {
		pos = x.pos(li.header.Instrs[0].Pos())
	}
	st := s.Clone()
	st.Reach = cond
	if h := fr.headSt[li.header]; h != nil {
		st.HeadSt = h // loophead() in this loop's clauses means this loop's head, not an inner loop's
	}
	env := x.invEnv(fr, st)
	x.oblCount[fmt.Sprintf("%s#be%d", fr.fn, li.ordinal)]++
	be := x.oblCount[fmt.Sprintf("%s#be%d", fr.fn, li.ordinal)]
	for k, inv := range lc.Invariants {
		x.obligeKnown(env, fmt.Sprintf("%s#loop%d.inv%d.preserved.%d", shortFn(fr.fn), li.ordinal, k, be), "invariant", pos, inv.Text, cond, env.evalGoal(inv.Expr))
	}
	for k, stp := range lc.Steps {
		prop, ok := func() (t Term, ok bool) {
			defer func() {
				if r := recover(); r != nil {
					if u, isU := r.(unsupported); isU && strings.Contains(u.msg, "unknown identifier") {
						ok = false // a back edge taken before the named local exists (early continue)
						return
					}
					panic(r)
				}
			}()
			return env.evalGoal(stp.Expr), true
		}()
		if !ok {
			continue
		}
		if x.stepHits != nil {
			x.stepHits[stp]++
		}
		x.obligeKnown(env, fmt.Sprintf("%s#loop%d.step%d.%d", shortFn(fr.fn), li.ordinal, k, be), "step", pos, stp.Text, cond, prop)
	}
	if lc.Decreases != nil {
		v0 := fr.variants[li.header][0]
		v1 := env.toBV64(env.eval(lc.Decreases.Expr))
		x.C.Oblige(fmt.Sprintf("%s#loop%d.decreases.%d", shortFn(fr.fn), li.ordinal, be), "decreases", pos, lc.Decreases.Text, cond,
			And(BVCmp("bvslt", v1, v0), BVCmp("bvsge", v0, BVLitI(64, 0))))
	}
}

// loopPreserved: fields under a write-set declaration that no call in the loop
// can write (and that the loop's own function is not a writer of) keep their
// values across the loop's heap havoc.
func (x *Exec) loopPreserved(fr *frame, li *loopInfo, n *State, pre map[Sort]Term) {
	if len(x.E.FieldDecls) == 0 {
		return
	}
	keep := map[*FieldDecl]bool{}
	for _, fd := range x.E.FieldDecls {
		if len(fd.Violated) == 0 {
			keep[fd] = true
		}
	}
	// direct writes inside the loop body
	for b := range li.body {
		for _, in := range b.Instrs {
			switch in := in.(type) {
			case *ssa.FieldAddr:
				pt := deref(in.X.Type())
				for fd := range keep {
					if fd.idx == in.Field && types.Identical(pt, fd.named) {
						for _, r := range *in.Referrers() {
							if x.E.addrUseIsWrite(in, r, 0) {
								delete(keep, fd)
								break
							}
						}
					}
				}
			case *ssa.Store:
				for fd := range keep {
					if containsNamed(in.Val.Type(), fd.named, 0) {
						delete(keep, fd)
					}
				}
			}
		}
	}
	for b := range li.body {
		for _, in := range b.Instrs {
			var c *ssa.CallCommon
			switch in := in.(type) {
			case *ssa.Call:
				c = &in.Call
			case *ssa.Defer:
				c = &in.Call
			case *ssa.Go:
				c = &in.Call
			default:
				continue
			}
			if _, ok := c.Value.(*ssa.Builtin); ok {
				continue
			}
			callee := c.StaticCallee()
			ok := map[*FieldDecl]bool{}
			if callee == nil {
				x.C.Trusted["dynamic calls (callbacks, interface methods of other packages) do not re-enter the package to write fields under a write-set declaration"] = true
				for _, fd := range x.E.preservedByDyn(c) {
					ok[fd] = true
				}
			} else {
				for _, fd := range x.E.preservedBy(callee) {
					ok[fd] = true
				}
			}
			for fd := range keep {
				if !ok[fd] {
					delete(keep, fd)
				}
			}
		}
	}
	post := map[Sort]Term{}
	for k, h := range n.Heaps {
		post[k] = h
	}
	for _, fd := range x.E.FieldDecls {
		if !keep[fd] {
			continue
		}
		rec := frameRec{fd: fd, pre: pre, post: post}
		x.frames = append(x.frames, rec)
		for _, a := range x.noted[fd.named.Obj().Name()] {
			x.instFrame(rec, a)
		}
	}
}
