package core

import (
	"fmt"
	"go/types"
	"path/filepath"
	"sort"
	"strings"

	"golang.org/x/tools/go/ssa"
)

// Guarded-by check (DESIGN §3.6): a contract clause
//
//	//@ locked mu
//
// on function f demands that every call of f in the package happens while a
// mutex stored in a field named mu is must-held (a forward must-lockset
// dataflow over the SSA; deferred unlocks keep the lock until return). Locks are
// identified by field name: the check does not distinguish two objects' mutexes
// of the same name (stated in the evidence).

func structFieldName(fa *ssa.FieldAddr) string {
	if st, ok := deref(fa.X.Type()).Underlying().(*types.Struct); ok {
		return st.Field(fa.Field).Name()
	}
	return ""
}

func (e *Engine) lockEffect(in ssa.Instruction) (add, remove string) {
	call, ok := in.(*ssa.Call)
	if !ok {
		return "", ""
	}
	callee := call.Call.StaticCallee()
	if callee == nil || len(call.Call.Args) == 0 {
		return "", ""
	}
	k := e.fnKey(callee)
	if !strings.HasPrefix(k, "(*sync.Mutex).") && !strings.HasPrefix(k, "(*sync.RWMutex).") {
		return "", ""
	}
	fa, ok := call.Call.Args[0].(*ssa.FieldAddr)
	if !ok {
		return "", ""
	}
	name := structFieldName(fa)
	switch callee.Name() {
	case "Lock", "RLock":
		return name, ""
	case "Unlock", "RUnlock":
		return "", name
	}
	return "", ""
}

// heldAt computes, for every call instruction in fn, the set of must-held lock names.
func (e *Engine) heldAt(fn *ssa.Function, entry map[string]bool) map[ssa.Instruction]map[string]bool {
	out := map[ssa.Instruction]map[string]bool{}
	if len(fn.Blocks) == 0 {
		return out
	}
	in := map[*ssa.BasicBlock]map[string]bool{}
	done := map[*ssa.BasicBlock]bool{}
	copySet := func(s map[string]bool) map[string]bool {
		n := map[string]bool{}
		for k := range s {
			n[k] = true
		}
		return n
	}
	in[fn.Blocks[0]] = copySet(entry)
	done[fn.Blocks[0]] = true
	for changed, iter := true, 0; changed && iter < 50; iter++ {
		changed = false
		for _, b := range fn.Blocks {
			if !done[b] {
				continue
			}
			cur := copySet(in[b])
			for _, ins := range b.Instrs {
				out[ins] = copySet(cur)
				add, rem := e.lockEffect(ins)
				if add != "" {
					cur[add] = true
				}
				if rem != "" {
					delete(cur, rem)
				}
			}
			for _, s := range b.Succs {
				if !done[s] {
					in[s] = copySet(cur)
					done[s] = true
					changed = true
					continue
				}
				for k := range in[s] {
					if !cur[k] {
						delete(in[s], k)
						changed = true
					}
				}
			}
		}
	}
	return out
}

// LockedUnits checks every "locked" clause of contracts serving the property.
func (e *Engine) LockedUnits(prop string) []*UnitResult {
	var res []*UnitResult
	for _, ct := range e.ContractList {
		if len(ct.Locked) == 0 || !hasProp(ct.Props, prop) {
			continue
		}
		target := e.Func(ct.Key)
		name := fmt.Sprintf("guardedby(%s)", ct.Key)
		o := &Obligation{Unit: name, Name: name, Kind: "lockset", Pos: fmt.Sprintf("%s:%d", filepath.Base(ct.File), ct.Line),
			Clause: "every call of " + ct.Key + " holds " + strings.Join(ct.Locked, ", "), Solver: "ssa-lockset", Status: "unsat"}
		var bad []string
		sites := 0
		if target == nil {
			o.Status, o.Output = "unknown", "unbound: no function "+ct.Key
		} else {
			var keys []string
			for k := range e.funcsByKey {
				keys = append(keys, k)
			}
			sort.Strings(keys)
			for _, k := range keys {
				fn := e.funcsByKey[k]
				entry := map[string]bool{}
				if c2 := e.contractFor(fn); c2 != nil {
					for _, l := range c2.Locked {
						entry[l] = true
					}
				}
				var held map[ssa.Instruction]map[string]bool
				for _, b := range fn.Blocks {
					for _, ins := range b.Instrs {
						var cc *ssa.CallCommon
						switch t := ins.(type) {
						case *ssa.Call:
							cc = &t.Call
						case *ssa.Go:
							cc = &t.Call
						case *ssa.Defer:
							cc = &t.Call
						}
						if cc == nil || cc.StaticCallee() != target {
							continue
						}
						sites++
						if held == nil {
							held = e.heldAt(fn, entry)
						}
						for _, l := range ct.Locked {
							if !held[ins][l] {
								bad = append(bad, fmt.Sprintf("%s calls %s at %s without holding %s", k, ct.Key, e.Fset.Position(ins.Pos()), l))
							}
						}
					}
				}
			}
			if len(bad) > 0 {
				o.Status, o.Output = "unknown", strings.Join(bad, "; ")
			}
			o.Clause += fmt.Sprintf(" (%d call sites)", sites)
		}
		res = append(res, &UnitResult{Unit: name, Kind: "lockset", Props: ct.Props, Obls: []*Obligation{o},
			Trusted: []string{"locks are identified by field name in the guarded-by check; sync.Mutex gives mutual exclusion"}})
	}
	return res
}
