// Package core is the govc verification-condition generator: it executes
// go/ssa (naive form) symbolically, cuts loops at invariants, evaluates
// //@ contracts and emits one SMT-LIB query per obligation.
package core

import (
	"fmt"
	"math/big"
	"sort"
	"strings"
)

// Sort is the SMT-LIB text of a sort.
type Sort string

const (
	SBool Sort = "Bool"
	SInt  Sort = "Int"
	SStr  Sort = "Str"
)

func BV(n int) Sort { return Sort(fmt.Sprintf("(_ BitVec %d)", n)) }

var (
	SBV8  = BV(8)
	SBV16 = BV(16)
	SBV32 = BV(32)
	SBV64 = BV(64)
)

// ObjSort is the sort of one object's leaf array (offset -> leaf).
func ObjSort(leaf Sort) Sort { return Sort("(Array (_ BitVec 64) " + string(leaf) + ")") }

// HeapSort is ref -> offset -> leaf.
func HeapSort(leaf Sort) Sort { return Sort("(Array Int " + string(ObjSort(leaf)) + ")") }

func (s Sort) IsBV() bool { return strings.HasPrefix(string(s), "(_ BitVec ") }
func (s Sort) Width() int {
	var n int
	fmt.Sscanf(string(s), "(_ BitVec %d)", &n)
	return n
}

// Term is an SMT-LIB term with its sort.
type Term struct {
	S    string
	Sort Sort
}

func (t Term) String() string { return t.S }
func (t Term) IsZero() bool   { return t.S == "" }

var (
	True  = Term{"true", SBool}
	False = Term{"false", SBool}
)

func app(sort Sort, op string, args ...Term) Term {
	var b strings.Builder
	b.WriteByte('(')
	b.WriteString(op)
	for _, a := range args {
		b.WriteByte(' ')
		b.WriteString(a.S)
	}
	b.WriteByte(')')
	return Term{b.String(), sort}
}

func App(sort Sort, op string, args ...Term) Term { return app(sort, op, args...) }

func Not(a Term) Term {
	switch a.S {
	case "true":
		return False
	case "false":
		return True
	}
	if strings.HasPrefix(a.S, "(not ") {
		return Term{a.S[5 : len(a.S)-1], SBool}
	}
	return app(SBool, "not", a)
}

func And(as ...Term) Term {
	var xs []Term
	for _, a := range as {
		if a.S == "false" {
			return False
		}
		if a.S == "true" {
			continue
		}
		xs = append(xs, a)
	}
	switch len(xs) {
	case 0:
		return True
	case 1:
		return xs[0]
	}
	return app(SBool, "and", xs...)
}

func Or(as ...Term) Term {
	var xs []Term
	for _, a := range as {
		if a.S == "true" {
			return True
		}
		if a.S == "false" {
			continue
		}
		xs = append(xs, a)
	}
	switch len(xs) {
	case 0:
		return False
	case 1:
		return xs[0]
	}
	return app(SBool, "or", xs...)
}

func Implies(a, b Term) Term {
	if a.S == "true" {
		return b
	}
	if a.S == "false" || b.S == "true" {
		return True
	}
	return app(SBool, "=>", a, b)
}

func Eq(a, b Term) Term {
	if a.Sort != b.Sort {
		panic(fmt.Sprintf("Eq: sort mismatch %s:%s vs %s:%s", a.S, a.Sort, b.S, b.Sort))
	}
	if a.S == b.S {
		return True
	}
	return app(SBool, "=", a, b)
}

func Ite(c, a, b Term) Term {
	if a.Sort != b.Sort {
		panic(fmt.Sprintf("Ite: sort mismatch %s:%s vs %s:%s", a.S, a.Sort, b.S, b.Sort))
	}
	switch c.S {
	case "true":
		return a
	case "false":
		return b
	}
	if a.S == b.S {
		return a
	}
	return app(a.Sort, "ite", c, a, b)
}

func IntLit(n int64) Term {
	if n < 0 {
		return Term{fmt.Sprintf("(- %d)", -n), SInt}
	}
	return Term{fmt.Sprintf("%d", n), SInt}
}

// BVLit builds a bit-vector literal of width w from v (taken modulo 2^w).
func BVLit(w int, v *big.Int) Term {
	m := new(big.Int).Lsh(big.NewInt(1), uint(w))
	x := new(big.Int).Mod(v, m)
	if w%4 == 0 {
		return Term{fmt.Sprintf("#x%0*s", w/4, x.Text(16)), BV(w)}
	}
	return Term{fmt.Sprintf("#b%0*s", w, x.Text(2)), BV(w)}
}

func BVLitI(w int, v int64) Term { return BVLit(w, big.NewInt(v)) }

func isZeroLit(t Term) bool {
	if !strings.HasPrefix(t.S, "#x") && !strings.HasPrefix(t.S, "#b") {
		return false
	}
	return strings.Trim(t.S[2:], "0") == ""
}

func BVOp(op string, a, b Term) Term {
	if a.Sort != b.Sort {
		panic(fmt.Sprintf("%s: sort mismatch %s:%s vs %s:%s", op, a.S, a.Sort, b.S, b.Sort))
	}
	switch op {
	case "bvadd", "bvor", "bvxor":
		if isZeroLit(b) {
			return a
		}
		if isZeroLit(a) {
			return b
		}
	case "bvsub", "bvshl", "bvlshr", "bvashr":
		if isZeroLit(b) {
			return a
		}
	case "bvmul":
		if isZeroLit(a) || isZeroLit(b) {
			return BVLitI(a.Sort.Width(), 0)
		}
	}
	return app(a.Sort, op, a, b)
}

func BVCmp(op string, a, b Term) Term {
	if a.Sort != b.Sort {
		panic(fmt.Sprintf("%s: sort mismatch %s:%s vs %s:%s", op, a.S, a.Sort, b.S, b.Sort))
	}
	return app(SBool, op, a, b)
}

// Resize converts a bit-vector to width w, sign- or zero-extending.
func Resize(a Term, w int, signed bool) Term {
	aw := a.Sort.Width()
	switch {
	case aw == w:
		return a
	case aw > w:
		return Term{fmt.Sprintf("((_ extract %d 0) %s)", w-1, a.S), BV(w)}
	case signed:
		return Term{fmt.Sprintf("((_ sign_extend %d) %s)", w-aw, a.S), BV(w)}
	default:
		return Term{fmt.Sprintf("((_ zero_extend %d) %s)", w-aw, a.S), BV(w)}
	}
}

func Select(arr, idx Term, elem Sort) Term { return app(elem, "select", arr, idx) }
func Store(arr, idx, v Term) Term          { return app(arr.Sort, "store", arr, idx, v) }

func Forall(vars []Term, body Term) Term {
	if len(vars) == 0 {
		return body
	}
	var b strings.Builder
	b.WriteString("(forall (")
	for _, v := range vars {
		fmt.Fprintf(&b, "(%s %s)", v.S, v.Sort)
	}
	b.WriteString(") ")
	b.WriteString(body.S)
	b.WriteString(")")
	return Term{b.String(), SBool}
}

func Exists(vars []Term, body Term) Term {
	if len(vars) == 0 {
		return body
	}
	var b strings.Builder
	b.WriteString("(exists (")
	for _, v := range vars {
		fmt.Fprintf(&b, "(%s %s)", v.S, v.Sort)
	}
	b.WriteString(") ")
	b.WriteString(body.S)
	b.WriteString(")")
	return Term{b.String(), SBool}
}

// ---------------------------------------------------------------------------
// Ctx: declarations, the assumption log and the obligations of one unit.

type logEntry struct {
	text string
	def  string // symbol defined by this entry ("" for a plain assumption)
	syms []string
	obl  bool // the entry is an obligation assumed after being stated (ignored by vacuity covers)
}

type Obligation struct {
	Unit   string // verification unit (function / region / lemma)
	Name   string // stable name within the unit
	Kind   string // ensures, requires, invariant, bounds, nil, ...
	Pos    string // file:line of the source construct (informational)
	Clause string // contract clause text or description
	logLen int
	goal   Term // reach ∧ ¬prop ; unsat ⇒ discharged
	Inputs []InputSym
	// results
	Status      string // unsat | sat | unknown
	Solver      string
	Ms          int64
	Model       map[string]string
	Output      string
	Vacuity     bool   // a reachability (cover) query: expected sat
	KnownClass  string // non-empty: the input class of a recorded known finding (expected sat)
	KnownWhat   string
	Candidate   bool // model found only after dropping quantified assumptions
	ReturnCover bool // reachability of one return site (a declared number may be dead code)
}

// InputSym names a symbol of the entry state whose model value is wanted.
type InputSym struct {
	Name string // human name: "cur", "len(buf)", ...
	Term Term
}

type Ctx struct {
	declOrder  []string
	decls      map[string]string // symbol -> full declaration text
	log        []logEntry
	Obls       []*Obligation
	fresh      int
	noDefine   int // >0: inside a binder, do not introduce constants
	strLits    map[string]Term
	strOrder   []string
	funDefs    []string // define-fun / axioms that are global to the unit
	Unit       string
	Inputs     []InputSym
	Abstracted map[string]int // abstraction kind -> count
	Trusted    map[string]bool
	evalDefs   []logEntry // definitions of observation symbols (always included)
	obsOK      map[string]bool
	defMemo    map[string]Term
	recDefs    []recDefText // define-fun-rec of recursive spec functions (emitted when used)
}

type recDefText struct {
	name, text string
	syms       []string
}

func NewCtx(unit string) *Ctx {
	return &Ctx{decls: map[string]string{}, strLits: map[string]Term{}, Unit: unit,
		Abstracted: map[string]int{}, Trusted: map[string]bool{}, defMemo: map[string]Term{}}
}

func sanitize(s string) string {
	var b strings.Builder
	for _, r := range s {
		switch {
		case r >= 'a' && r <= 'z', r >= 'A' && r <= 'Z', r >= '0' && r <= '9', r == '_', r == '.', r == '$':
			b.WriteRune(r)
		default:
			b.WriteByte('_')
		}
	}
	return b.String()
}

func (c *Ctx) Declare(name string, s Sort) Term {
	if _, ok := c.decls[name]; !ok {
		c.decls[name] = fmt.Sprintf("(declare-const %s %s)", name, s)
		c.declOrder = append(c.declOrder, name)
	}
	return Term{name, s}
}

func (c *Ctx) DeclareFun(name string, args []Sort, ret Sort) {
	if _, ok := c.decls[name]; ok {
		return
	}
	var as []string
	for _, a := range args {
		as = append(as, string(a))
	}
	c.decls[name] = fmt.Sprintf("(declare-fun %s (%s) %s)", name, strings.Join(as, " "), ret)
	c.declOrder = append(c.declOrder, name)
}

func (c *Ctx) Fresh(prefix string, s Sort) Term {
	c.fresh++
	return c.Declare(fmt.Sprintf("%s!%d", sanitize(prefix), c.fresh), s)
}

// BoundVar makes a name for a quantified variable (not declared globally).
func (c *Ctx) BoundVar(prefix string, s Sort) Term {
	c.fresh++
	return Term{fmt.Sprintf("%s!q%d", sanitize(prefix), c.fresh), s}
}

func isAtom(s string) bool {
	return !strings.ContainsAny(s, " (") || strings.HasPrefix(s, "#")
}

// Define names a term with a fresh constant (keeps queries linear in size).
func (c *Ctx) Define(prefix string, t Term) Term {
	if c.noDefine > 0 || isAtom(t.S) || len(t.S) < 24 {
		return t
	}
	return c.canon(prefix, t)
}

// canon names a term, reusing the name of a syntactically identical term
// (hash-consing: equal terms get equal names, which gives the solvers congruence for free).
func (c *Ctx) canon(prefix string, t Term) Term {
	if c.noDefine > 0 || isAtom(t.S) {
		return t
	}
	if v, ok := c.defMemo[t.S]; ok {
		return v
	}
	v := c.Fresh(prefix, t.Sort)
	c.log = append(c.log, logEntry{text: "(= " + v.S + " " + t.S + ")", def: v.S})
	c.defMemo[t.S] = v
	return v
}

// Canon is canon for callers outside the package's term builders.
func (c *Ctx) Canon(prefix string, t Term) Term { return c.canon(prefix, t) }

func (c *Ctx) Assume(t Term) {
	if t.S == "true" || c.noDefine > 0 {
		return
	}
	c.log = append(c.log, logEntry{text: t.S})
}

func (c *Ctx) StrLit(s string) Term {
	if t, ok := c.strLits[s]; ok {
		return t
	}
	t := c.Declare(fmt.Sprintf("str!%d", len(c.strLits)), SStr)
	c.strLits[s] = t
	c.strOrder = append(c.strOrder, s)
	if l := strings.ToLower(s); l != s && l != "" {
		c.StrLit(l)
	}
	return t
}

// Oblige records the proof obligation reach ⇒ prop and then assumes it.
func (c *Ctx) Oblige(name, kind, pos, clause string, reach, prop Term) *Obligation {
	if c.noDefine > 0 {
		return nil
	}
	if prop.S == "true" || reach.S == "false" {
		return nil
	}
	o := &Obligation{Unit: c.Unit, Name: name, Kind: kind, Pos: pos, Clause: clause,
		logLen: len(c.log), goal: And(reach, Not(prop)), Inputs: c.Inputs}
	c.Obls = append(c.Obls, o)
	n := len(c.log)
	c.Assume(Implies(reach, prop))
	for i := n; i < len(c.log); i++ {
		c.log[i].obl = true
	}
	return o
}

// Cover records a reachability query (expected sat); used as a vacuity guard.
func (c *Ctx) Cover(name, pos string, reach Term) *Obligation {
	o := &Obligation{Unit: c.Unit, Name: name, Kind: "cover", Pos: pos, Clause: "reachable",
		logLen: len(c.log), goal: reach, Inputs: c.Inputs, Vacuity: true}
	c.Obls = append(c.Obls, o)
	return o
}

// ---------------------------------------------------------------------------
// Query text

const prelude = `(declare-sort Str 0)
(declare-fun sx.len (Str) (_ BitVec 64))
(declare-fun sx.at (Str (_ BitVec 64)) (_ BitVec 8))
(declare-fun sx.cat (Str Str) Str)
(declare-fun sx.sub (Str (_ BitVec 64) (_ BitVec 64)) Str)
(declare-fun sx.lower (Str) Str)
(declare-fun sx.fold (Str Str) Bool)
(declare-fun sx.lt (Str Str) Bool)
(declare-const sx.empty Str)
(assert (= (sx.len sx.empty) #x0000000000000000))
`

// foldAxiom: strings.EqualFold is equality of the lower-cased strings (holds for ASCII; the
// stated precondition of C17). Emitted (as a quantified assumption) when sx.fold is used.
const foldAxiom = "(assert (forall ((a Str) (b Str)) (! (= (sx.fold a b) (= (sx.lower a) (sx.lower b))) :pattern ((sx.fold a b)))))\n"

func symbolsOf(s string, out map[string]bool) {
	i := 0
	for i < len(s) {
		ch := s[i]
		if ch == '(' || ch == ')' || ch == ' ' || ch == '\n' || ch == '\t' {
			i++
			continue
		}
		j := i
		for j < len(s) && s[j] != '(' && s[j] != ')' && s[j] != ' ' && s[j] != '\n' && s[j] != '\t' {
			j++
		}
		out[s[i:j]] = true
		i = j
	}
}

func symList(s string) []string {
	m := map[string]bool{}
	symbolsOf(s, m)
	var r []string
	for k := range m {
		r = append(r, k)
	}
	return r
}

func obs(c *Ctx, s string) bool { return c.obsOK[s] }

// Observe names a term so that counterexamples report its value.
func (c *Ctx) Observe(name string, t Term) {
	c.fresh++
	v := Term{fmt.Sprintf("obs!%d", c.fresh), t.Sort}
	c.decls[v.S] = fmt.Sprintf("(declare-const %s %s)", v.S, t.Sort)
	c.evalDefs = append(c.evalDefs, logEntry{text: "(= " + v.S + " " + t.S + ")", def: v.S})
	c.Inputs = append(c.Inputs, InputSym{Name: name, Term: v})
}

// Query renders the SMT-LIB text of an obligation, sliced to the symbols the
// goal depends on (dropping assumptions is sound: it can only lose proofs).
func (c *Ctx) Query(o *Obligation, withModel bool) string { return c.query(o, withModel, false) }

// QueryNoQuant drops quantified assumptions: a model of it is only a candidate
// counterexample (to be confirmed by replay on the real code).
func (c *Ctx) QueryNoQuant(o *Obligation) string { return c.query(o, true, true) }

func (c *Ctx) query(o *Obligation, withModel bool, dropQuant bool) string {
	rel := map[string]bool{}
	symbolsOf(o.goal.S, rel)
	n := o.logLen
	for i := range c.log[:n] {
		if c.log[i].syms == nil {
			c.log[i].syms = symList(c.log[i].text)
		}
	}
	include := make([]bool, n)
	// Every plain assumption is kept (dropping one whose symbols are only
	// definitionally connected to the goal would silently lose a precondition);
	// definitions are kept when the symbol they define is used.
	for i := 0; i < n; i++ {
		if c.log[i].def == "" {
			if o.Vacuity && c.log[i].obl {
				// a reachability check must not lean on obligations that may themselves fail
				continue
			}
			include[i] = true
			for _, s := range c.log[i].syms {
				rel[s] = true
			}
		}
	}
	for i := n - 1; i >= 0; i-- {
		e := &c.log[i]
		if e.def != "" && rel[e.def] {
			include[i] = true
			for _, s := range e.syms {
				rel[s] = true
			}
		}
	}
	// recursive spec functions that are used (directly or by another used one), in definition order
	var recOut strings.Builder
	for changed := true; changed; {
		changed = false
		for i := range c.recDefs {
			d := &c.recDefs[i]
			if rel[d.name] && !rel["!def:"+d.name] {
				rel["!def:"+d.name] = true
				for _, sy := range d.syms {
					if !rel[sy] {
						rel[sy] = true
						changed = true
					}
				}
			}
		}
	}
	for _, d := range c.recDefs {
		if rel["!def:"+d.name] {
			recOut.WriteString(d.text)
			recOut.WriteByte('\n')
		}
	}
	var b strings.Builder
	if withModel {
		b.WriteString("(set-option :produce-models true)\n")
	}
	b.WriteString("(set-logic ALL)\n")
	b.WriteString(prelude)
	if rel["sx.fold"] && !dropQuant {
		b.WriteString(foldAxiom)
	}
	if rel["sx.len"] && !dropQuant {
		// a Go string is shorter than 2^40 bytes (as slices are assumed to be)
		b.WriteString("(assert (forall ((s Str)) (! (bvult (sx.len s) #x0000010000000000) :pattern ((sx.len s)))))\n")
	}
	if rel["sx.emptyobj"] {
		b.WriteString("(declare-const sx.emptyobj (Array (_ BitVec 64) Str))\n")
		if !dropQuant {
			b.WriteString("(assert (forall ((o (_ BitVec 64))) (= (select sx.emptyobj o) sx.empty)))\n")
		}
	}
	for _, s := range c.strOrder {
		t := c.strLits[s]
		if rel[t.S] {
			// the lower-case form of a relevant literal is relevant too
			if l := strings.ToLower(s); l != s && l != "" {
				rel[c.strLits[l].S] = true
			}
		}
	}
	for _, name := range c.declOrder {
		if rel[name] {
			b.WriteString(c.decls[name])
			b.WriteByte('\n')
		}
	}
	// string literals: pairwise distinct, known lengths and bytes
	var lits []string
	for _, s := range c.strOrder {
		t := c.strLits[s]
		if rel[t.S] {
			lits = append(lits, s)
		}
	}
	if len(lits) > 1 {
		b.WriteString("(assert (distinct")
		for _, s := range lits {
			b.WriteString(" " + c.strLits[s].S)
		}
		b.WriteString("))\n")
	}
	for _, s := range lits {
		t := c.strLits[s]
		// strings.ToLower of a literal is computed exactly
		if l := strings.ToLower(s); l == "" {
			fmt.Fprintf(&b, "(assert (= (sx.lower %s) sx.empty))\n", t.S)
		} else {
			fmt.Fprintf(&b, "(assert (= (sx.lower %s) %s))\n", t.S, c.strLits[l].S)
		}
		fmt.Fprintf(&b, "(assert (= (sx.len %s) %s))\n", t.S, BVLitI(64, int64(len(s))).S)
		if len(s) <= 64 {
			for k := 0; k < len(s); k++ {
				fmt.Fprintf(&b, "(assert (= (sx.at %s %s) %s))\n", t.S, BVLitI(64, int64(k)).S, BVLitI(8, int64(s[k])).S)
			}
		}
	}
	for _, d := range c.funDefs {
		b.WriteString(d)
		b.WriteByte('\n')
	}
	b.WriteString(recOut.String())
	for i := 0; i < n; i++ {
		if include[i] {
			if dropQuant && (strings.Contains(c.log[i].text, "(forall ") || strings.Contains(c.log[i].text, "(exists ")) {
				continue
			}
			b.WriteString("(assert ")
			b.WriteString(c.log[i].text)
			b.WriteString(")\n")
		}
	}
	if withModel {
		// observation symbols: their definitions only name existing terms
		obs := map[string]bool{}
		for _, d := range c.evalDefs {
			ok := true
			for _, sy := range symList(d.text) {
				if c.decls[sy] != "" && !rel[sy] && sy != d.def {
					ok = false
				}
			}
			if ok {
				obs[d.def] = true
				b.WriteString(c.decls[d.def] + "\n(assert " + d.text + ")\n")
			}
		}
		c.obsOK = obs
	}
	b.WriteString("(assert ")
	b.WriteString(o.goal.S)
	b.WriteString(")\n(check-sat)\n")
	if withModel {
		seen := map[string]bool{}
		var vs []string
		for _, in := range c.Inputs {
			if !seen[in.Term.S] && (rel[in.Term.S] || obs(c, in.Term.S)) {
				seen[in.Term.S] = true
				vs = append(vs, in.Term.S)
			}
		}
		sort.Strings(vs)
		for _, v := range vs {
			fmt.Fprintf(&b, "(get-value (%s))\n", v)
		}
	}
	return b.String()
}
