package core

import (
	"fmt"
	"go/ast"
	"go/token"
	"go/types"
	"strconv"
	"strings"

	"golang.org/x/tools/go/ssa"
)

func isCallTo(e ast.Expr, name string) (ast.Expr, bool) {
	c, ok := e.(*ast.CallExpr)
	if !ok || len(c.Args) != 1 {
		return nil, false
	}
	id, ok := c.Fun.(*ast.Ident)
	if !ok || id.Name != name {
		return nil, false
	}
	return c.Args[0], true
}

func (x *Exec) builtin(fr *frame, s *State, b *ssa.Builtin, c *ssa.CallCommon, args []Value, pos token.Pos) []Value {
	it := types.Typ[types.Int]
	switch b.Name() {
	case "len", "cap":
		v := args[0]
		switch u := v.T.Underlying().(type) {
		case *types.Slice:
			if b.Name() == "len" {
				return []Value{{T: it, L: []Term{v.L[2]}}}
			}
			return []Value{{T: it, L: []Term{v.L[3]}}}
		case *types.Basic:
			return []Value{{T: it, L: []Term{app(SBV64, "sx.len", v.L[0])}}}
		case *types.Array:
			return []Value{{T: it, L: []Term{BVLitI(64, u.Len())}}}
		case *types.Pointer:
			return []Value{{T: it, L: []Term{BVLitI(64, u.Elem().Underlying().(*types.Array).Len())}}}
		case *types.Map:
			x.C.DeclareFun("map.len", []Sort{SInt}, SBV64)
			x.C.Abstracted["len(map) (uninterpreted)"]++
			n := x.C.Fresh("maplen", SBV64)
			x.C.Assume(Implies(s.Reach, And(BVCmp("bvsge", n, BVLitI(64, 0)), Implies(Eq(v.L[0], IntLit(0)), Eq(n, BVLitI(64, 0))))))
			return []Value{{T: it, L: []Term{n}}}
		case *types.Chan:
			n := x.C.Fresh("chanlen", SBV64)
			x.C.Assume(Implies(s.Reach, BVCmp("bvsge", n, BVLitI(64, 0))))
			return []Value{{T: it, L: []Term{n}}}
		}
	case "append":
		return []Value{x.appendModel(fr, s, args[0], args[1], pos)}
	case "copy":
		return []Value{x.copyModel(fr, s, args[0], args[1])}
	case "delete":
		m, key := args[0], args[1]
		mt := m.T.Underlying().(*types.Map)
		k := x.mapKeySort(mt)
		if isInterface(mt.Key()) && !isInterface(key.T) {
			key = x.makeInterface(s, key, mt.Key())
		}
		dom := x.mapDom(s, k)
		ds := Sort("(Array " + string(k) + " Bool)")
		s.MapDom[k] = x.C.Define("MD", Store(dom, m.L[0], Store(Select(dom, m.L[0], ds), key.L[0], False)))
		return nil
	case "min", "max":
		out := args[0]
		for _, a := range args[1:] {
			var less Term
			if isSigned(a.T) {
				less = BVCmp("bvslt", a.L[0], out.L[0])
			} else {
				less = BVCmp("bvult", a.L[0], out.L[0])
			}
			if b.Name() == "max" {
				less = Not(Or(less, Eq(a.L[0], out.L[0])))
			}
			out = Value{T: out.T, L: []Term{Ite(less, a.L[0], out.L[0])}}
		}
		return []Value{out}
	case "close":
		x.C.Abstracted["close(chan)"]++
		return nil
	case "print", "println":
		return nil
	case "ssa:wrapnilchk":
		x.nilCheck(fr, s, args[0], pos, "receiver")
		return []Value{args[0]}
	case "ssa:deferstack":
		return []Value{{T: c.Signature().Results().At(0).Type(), L: []Term{IntLit(0), BVLitI(64, 0)}}}
	case "clear":
		x.C.Abstracted["clear()"]++
		x.havocHeaps(s, nil, "clear")
		return nil
	case "recover":
		return []Value{x.E.zero(c.Signature().Results().At(0).Type())}
	}
	unsup("builtin %s", b.Name())
	panic("unreachable")
}

// appendModel: exact: in place when the capacity suffices, else a fresh backing array.
func (x *Exec) appendModel(fr *frame, s *State, dst, src Value, pos token.Pos) Value {
	sl := dst.T.Underlying().(*types.Slice)
	st := x.stride(sl.Elem())
	var sref, soff, slen Term
	if isString(src.T) {
		unsup("append(bytes, string...)")
	}
	if b, ok := src.T.Underlying().(*types.Basic); ok && b.Kind() == types.UntypedNil {
		return dst
	}
	sref, soff, slen = src.L[0], src.L[1], src.L[2]
	ref, off, ln, cp := dst.L[0], dst.L[1], dst.L[2], dst.L[3]
	x.noteSlice(s, dst)
	x.noteSlice(s, src)
	// in-place appends write into the destination's backing array beyond its length
	if x.frameOn {
		x.C.Oblige(x.oblName(fr.fn, "frame"), "frame", x.pos(pos), "append writes in place only into memory the modifies clause names (or a fresh array)", s.Reach,
			Or(Not(BVCmp("bvule", BVOp("bvadd", dst.L[2], src.L[2]), dst.L[3])), Eq(src.L[2], BVLitI(64, 0)), App(SBool, ">=", dst.L[0], x.entry.Frontier),
				inTargets(x.frameTs, dst.L[0], BVOp("bvadd", dst.L[1], mulOff(dst.L[2], st)))))
	}
	newLen := x.C.Define("newlen", BVOp("bvadd", ln, slen))
	inPlace := x.C.Define("inplace", BVCmp("bvule", newLen, cp))
	fresh := x.alloc(s, "append")
	ncap := x.C.Fresh("cap", SBV64)
	x.C.Assume(Implies(s.Reach, And(BVCmp("bvule", newLen, ncap), BVCmp("bvult", ncap, BVLitI(64, 1<<40)))))
	// a nil/empty append of nothing keeps the slice
	rref := Ite(inPlace, ref, fresh)
	roff := Ite(inPlace, off, BVLitI(64, 0))
	rcap := Ite(inPlace, cp, ncap)
	// statically known small number of appended elements: explicit stores
	nNew := int64(-1)
	if strings.HasPrefix(slen.S, "#x") {
		if v, err := strconv.ParseUint(slen.S[2:], 16, 64); err == nil && v <= 8 {
			nNew = int64(v)
		}
	}
	leafSorts := x.E.memLeafSorts(sl.Elem())
	for _, k := range x.E.memSorts(sl.Elem()) {
		h := x.heap(s, k)
		oldObj := Select(h, ref, ObjSort(k))
		srcObj := Select(h, sref, ObjSort(k))
		j := x.C.BoundVar("j", SBV64)
		oldLeaves := mulOff(ln, st)
		if nNew >= 0 {
			// base: the old object (in place) or a fresh object holding a copy of the old elements
			copied := x.C.Fresh("obj", ObjSort(k))
			x.C.Assume(Implies(s.Reach, Forall([]Term{j}, Implies(BVCmp("bvult", j, oldLeaves),
				Eq(Select(copied, j, k), Select(oldObj, BVOp("bvadd", off, j), k))))))
			obj := Ite(inPlace, oldObj, copied)
			for e := int64(0); e < nNew; e++ {
				for l, ls := range leafSorts {
					if ls != k || ls == "" {
						continue
					}
					dstOff := BVOp("bvadd", roff, BVOp("bvadd", oldLeaves, BVLitI(64, e*st+int64(l))))
					srcOff := offAdd(soff, e*st+int64(l))
					obj = Store(obj, dstOff, Select(srcObj, srcOff, k))
				}
			}
			s.Heaps[k] = x.C.Define("H", Store(h, rref, x.C.Define("obj", obj)))
			continue
		}
		obj := x.C.Fresh("obj", ObjSort(k))
		// position of j relative to the start of the result slice
		rel := BVOp("bvsub", j, roff)
		addLeaves := mulOff(slen, st)
		inOld := BVCmp("bvult", rel, oldLeaves)
		inNew := BVCmp("bvult", BVOp("bvsub", rel, oldLeaves), addLeaves)
		val := Ite(inNew, Select(srcObj, BVOp("bvadd", soff, BVOp("bvsub", rel, oldLeaves)), k),
			Ite(inPlace, Select(oldObj, j, k),
				Ite(inOld, Select(oldObj, BVOp("bvadd", off, rel), k), zeroOf(k))))
		x.C.Assume(Implies(s.Reach, Forall([]Term{j}, Eq(Select(obj, j, k), val))))
		s.Heaps[k] = x.C.Define("H", Store(h, rref, obj))
	}
	return Value{T: dst.T, L: []Term{x.C.Define("aref", rref), x.C.Define("aoff", roff), newLen, x.C.Define("acap", rcap)}}
}

func (x *Exec) copyModel(fr *frame, s *State, dst, src Value) Value {
	sl := dst.T.Underlying().(*types.Slice)
	st := x.stride(sl.Elem())
	x.frameCheckRange(fr, s, dst.L[0], dst.L[1], mulOff(dst.L[2], st), token.NoPos, "copy destination")
	var n Term
	if isString(src.T) {
		sln := app(SBV64, "sx.len", src.L[0])
		n = x.C.Define("n", Ite(BVCmp("bvult", dst.L[2], sln), dst.L[2], sln))
		h := x.heap(s, SBV8)
		oldObj := Select(h, dst.L[0], ObjSort(SBV8))
		obj := x.C.Fresh("obj", ObjSort(SBV8))
		j := x.C.BoundVar("j", SBV64)
		rel := BVOp("bvsub", j, dst.L[1])
		x.C.Assume(Implies(s.Reach, Forall([]Term{j}, Eq(Select(obj, j, SBV8),
			Ite(BVCmp("bvult", rel, n), app(SBV8, "sx.at", src.L[0], rel), Select(oldObj, j, SBV8))))))
		s.Heaps[SBV8] = x.C.Define("H", Store(h, dst.L[0], obj))
		return Value{T: types.Typ[types.Int], L: []Term{n}}
	}
	n = x.C.Define("n", Ite(BVCmp("bvult", dst.L[2], src.L[2]), dst.L[2], src.L[2]))
	for _, k := range x.E.memSorts(sl.Elem()) {
		h := x.heap(s, k)
		oldObj := Select(h, dst.L[0], ObjSort(k))
		srcObj := Select(h, src.L[0], ObjSort(k))
		obj := x.C.Fresh("obj", ObjSort(k))
		j := x.C.BoundVar("j", SBV64)
		rel := BVOp("bvsub", j, dst.L[1])
		x.C.Assume(Implies(s.Reach, Forall([]Term{j}, Eq(Select(obj, j, k),
			Ite(BVCmp("bvult", rel, mulOff(n, st)), Select(srcObj, BVOp("bvadd", src.L[1], rel), k), Select(oldObj, j, k))))))
		s.Heaps[k] = x.C.Define("H", Store(h, dst.L[0], obj))
	}
	return Value{T: types.Typ[types.Int], L: []Term{n}}
}

// modelEffect reports the heap sorts a modelled stdlib function may write
// (ok=false: no model).
func (e *Engine) modelEffect(fn *ssa.Function) ([]Sort, bool) {
	k := e.fnKey(fn)
	if (strings.HasPrefix(k, "(*atomic.") && strings.HasSuffix(k, ").Load")) || strings.HasPrefix(k, "atomic.Load") {
		return nil, true // loads write nothing
	}
	switch {
	case strings.HasPrefix(k, "(*sync.Mutex)."), strings.HasPrefix(k, "(*sync.RWMutex)."), strings.HasPrefix(k, "(*sync.WaitGroup)."):
		return nil, true
	case strings.HasPrefix(k, "(*atomic.Bool)."), strings.HasPrefix(k, "(*atomic.Int32)."), strings.HasPrefix(k, "(*atomic.Uint32)."):
		return []Sort{SBV32}, true
	case strings.HasPrefix(k, "(*atomic.Int64)."), strings.HasPrefix(k, "(*atomic.Uint64)."):
		return []Sort{SBV64}, true
	case strings.HasPrefix(k, "(*atomic.Value)."), strings.HasPrefix(k, "(*atomic.Pointer["):
		return []Sort{SInt, SBV64}, true
	case strings.HasPrefix(k, "atomic.Load"), strings.HasPrefix(k, "atomic.Store"), strings.HasPrefix(k, "atomic.Add"), strings.HasPrefix(k, "atomic.CompareAndSwap"), strings.HasPrefix(k, "atomic.Swap"):
		return []Sort{SBV32, SBV64}, true
	case strings.HasPrefix(k, "(binary.bigEndian).Put"), strings.HasPrefix(k, "(binary.littleEndian).Put"):
		return []Sort{SBV8}, true
	case strings.HasPrefix(k, "(binary.bigEndian)."), strings.HasPrefix(k, "(binary.littleEndian)."):
		return nil, true
	case k == "binary.Read":
		// writes the integer its third argument points to (binaryReadModel; otherwise an uncontracted call)
		return []Sort{SBV8, BV(16), SBV32, SBV64}, true
	case pureModels[k]:
		return nil, true
	}
	return nil, false
}

var pureModels = map[string]bool{
	"errors.New": true, "fmt.Errorf": true, "fmt.Sprintf": true, "fmt.Sprint": true, "errors.Is": true,
	"strings.EqualFold": true, "strings.ToLower": true, "strings.ToUpper": true, "strings.HasPrefix": true, "strings.HasSuffix": true,
	"strings.TrimPrefix": true, "strings.TrimSpace": true, "strings.Contains": true, "strings.Index": true, "strings.Split": true,
	"bytes.Equal": true, "strconv.Itoa": true, "strconv.Atoi": true, "strconv.ParseUint": true, "strconv.Quote": true,
	"(*strings.Builder).String": true, "bytes.NewReader": true,
}

func boolVal(t Term) Value { return Value{T: types.Typ[types.Bool], L: []Term{t}} }

// stdlibModel applies an exact or axiomatised model of a library function.
func (x *Exec) stdlibModel(fr *frame, s *State, callee *ssa.Function, args []Value, pos token.Pos, inSpec bool) ([]Value, bool) {
	k := x.E.fnKey(callee)
	sig := callee.Signature
	res := func(i int) types.Type { return sig.Results().At(i).Type() }
	ld := func(p Value, t types.Type) Value { return x.load(fr, s, p, t, pos) }
	switch {
	case strings.HasPrefix(k, "(*sync.Mutex)."), strings.HasPrefix(k, "(*sync.RWMutex)."):
		m := k[strings.LastIndex(k, ".")+1:]
		x.lockEvent(fr, s, callee, m, args[0], pos)
		if m == "TryLock" || m == "TryRLock" {
			return []Value{boolVal(x.C.Fresh("trylock", SBool))}, true
		}
		if m == "RLocker" {
			return nil, false
		}
		return []Value{}, true
	case strings.HasPrefix(k, "(*sync.WaitGroup)."):
		x.C.Abstracted["sync.WaitGroup (no blocking semantics)"]++
		return []Value{}, true
	case strings.HasPrefix(k, "(*atomic.Bool)."):
		x.C.Trusted["sync/atomic operations are modelled as plain sequential loads/stores"] = true
		x.noteStructAddr(s, deref(args[0].T), args[0].L[0], args[0].L[1])
		// struct{ _ noCopy; v uint32 }
		addr := args[0]
		cur := ld(addr, types.Typ[types.Uint32])
		curB := Not(Eq(cur.L[0], BVLitI(32, 0)))
		b2u := func(b Term) Value {
			return Value{T: types.Typ[types.Uint32], L: []Term{Ite(b, BVLitI(32, 1), BVLitI(32, 0))}}
		}
		switch callee.Name() {
		case "Load":
			return []Value{boolVal(curB)}, true
		case "Store":
			x.store(fr, s, addr, b2u(args[1].L[0]), pos)
			return []Value{}, true
		case "Swap":
			x.store(fr, s, addr, b2u(args[1].L[0]), pos)
			return []Value{boolVal(curB)}, true
		case "CompareAndSwap":
			ok := x.C.Define("cas", Eq(curB, args[1].L[0]))
			x.store(fr, s, addr, b2u(Ite(ok, args[2].L[0], curB)), pos)
			return []Value{boolVal(ok)}, true
		}
	case strings.HasPrefix(k, "(*atomic.Int32)."), strings.HasPrefix(k, "(*atomic.Uint32)."), strings.HasPrefix(k, "(*atomic.Int64)."), strings.HasPrefix(k, "(*atomic.Uint64)."):
		x.C.Trusted["sync/atomic operations are modelled as plain sequential loads/stores"] = true
		x.noteStructAddr(s, deref(args[0].T), args[0].L[0], args[0].L[1])
		var vt types.Type
		switch {
		case strings.Contains(k, "Int32"):
			vt = types.Typ[types.Int32]
		case strings.Contains(k, "Uint32"):
			vt = types.Typ[types.Uint32]
		case strings.Contains(k, "Int64"):
			vt = types.Typ[types.Int64]
		default:
			vt = types.Typ[types.Uint64]
		}
		addr := args[0]
		// Int64/Uint64 have a leading align64 field of zero size
		cur := ld(addr, vt)
		switch callee.Name() {
		case "Load":
			return []Value{cur}, true
		case "Store":
			x.store(fr, s, addr, Value{T: vt, L: args[1].L}, pos)
			return []Value{}, true
		case "Swap":
			x.store(fr, s, addr, Value{T: vt, L: args[1].L}, pos)
			return []Value{cur}, true
		case "Add":
			nv := Value{T: vt, L: []Term{x.C.Define("add", BVOp("bvadd", cur.L[0], args[1].L[0]))}}
			x.store(fr, s, addr, nv, pos)
			return []Value{nv}, true
		case "CompareAndSwap":
			ok := x.C.Define("cas", Eq(cur.L[0], args[1].L[0]))
			x.store(fr, s, addr, Value{T: vt, L: []Term{Ite(ok, args[2].L[0], cur.L[0])}}, pos)
			return []Value{boolVal(ok)}, true
		}
	case strings.HasPrefix(k, "(*atomic.Value)."):
		x.C.Trusted["sync/atomic operations are modelled as plain sequential loads/stores"] = true
		anyT := types.NewInterfaceType(nil, nil)
		addr := args[0]
		x.noteStructAddr(s, deref(args[0].T), args[0].L[0], args[0].L[1])
		cur := ld(addr, anyT)
		switch callee.Name() {
		case "Load":
			cur.T = res(0)
			return []Value{cur}, true
		case "Store":
			if x.safety {
				x.C.Oblige(x.oblName(fr.fn, "atomicnil"), "panic", x.pos(pos), "atomic.Value.Store of non-nil", s.Reach, Not(Eq(args[1].L[0], IntLit(0))))
			}
			x.store(fr, s, addr, Value{T: anyT, L: args[1].L}, pos)
			return []Value{}, true
		case "Swap":
			x.store(fr, s, addr, Value{T: anyT, L: args[1].L}, pos)
			cur.T = res(0)
			return []Value{cur}, true
		}
	case strings.HasPrefix(k, "(*atomic.Pointer["):
		x.C.Trusted["sync/atomic operations are modelled as plain sequential loads/stores"] = true
		addr := args[0]
		pt := sig.Recv().Type().(*types.Pointer).Elem() // atomic.Pointer[T]
		_ = pt
		switch callee.Name() {
		case "Load":
			return []Value{ld(addr, res(0))}, true
		case "Store":
			x.store(fr, s, addr, args[1], pos)
			return []Value{}, true
		case "Swap":
			old := ld(addr, res(0))
			x.store(fr, s, addr, args[1], pos)
			return []Value{old}, true
		case "CompareAndSwap":
			old := ld(addr, args[1].T)
			ok := x.C.Define("cas", And(Eq(old.L[0], args[1].L[0]), Eq(old.L[1], args[1].L[1])))
			x.store(fr, s, addr, Value{T: args[1].T, L: []Term{Ite(ok, args[2].L[0], old.L[0]), Ite(ok, args[2].L[1], old.L[1])}}, pos)
			return []Value{boolVal(ok)}, true
		}
	case strings.HasPrefix(k, "atomic.Load"), strings.HasPrefix(k, "atomic.Store"), strings.HasPrefix(k, "atomic.Add"), strings.HasPrefix(k, "atomic.CompareAndSwap"), strings.HasPrefix(k, "atomic.Swap"):
		x.C.Trusted["sync/atomic operations are modelled as plain sequential loads/stores"] = true
		addr := args[0]
		vt := deref(addr.T)
		if !isInteger(vt) {
			return nil, false
		}
		cur := ld(addr, vt)
		name := callee.Name()
		switch {
		case strings.HasPrefix(name, "Load"):
			return []Value{cur}, true
		case strings.HasPrefix(name, "Store"):
			x.store(fr, s, addr, Value{T: vt, L: args[1].L}, pos)
			return []Value{}, true
		case strings.HasPrefix(name, "Swap"):
			x.store(fr, s, addr, Value{T: vt, L: args[1].L}, pos)
			return []Value{cur}, true
		case strings.HasPrefix(name, "Add"):
			nv := Value{T: vt, L: []Term{x.C.Define("add", BVOp("bvadd", cur.L[0], args[1].L[0]))}}
			x.store(fr, s, addr, nv, pos)
			return []Value{nv}, true
		case strings.HasPrefix(name, "CompareAndSwap"):
			ok := x.C.Define("cas", Eq(cur.L[0], args[1].L[0]))
			x.store(fr, s, addr, Value{T: vt, L: []Term{Ite(ok, args[2].L[0], cur.L[0])}}, pos)
			return []Value{boolVal(ok)}, true
		}
	case strings.HasPrefix(k, "(binary.bigEndian)."), strings.HasPrefix(k, "(binary.littleEndian)."):
		return x.binaryModel(fr, s, callee, strings.Contains(k, "bigEndian"), args, pos)
	case k == "bytes.NewReader":
		// a fresh reader object; its only modelled consumer is binary.Read (binaryReadModel)
		return []Value{{T: res(0), L: []Term{x.alloc(s, "bytesreader"), BVLitI(64, 0)}, NN: true}}, true
	case k == "errors.New", k == "fmt.Errorf":
		r := x.alloc(s, "err")
		tag := IntLit(x.E.typeID(types.NewPointer(types.NewNamed(types.NewTypeName(token.NoPos, nil, "errors.errorString", nil), types.NewStruct(nil, nil), nil))))
		out := Value{T: res(0), L: []Term{tag, r, BVLitI(64, 0)}}
		if k == "fmt.Errorf" {
			// %w wrapping: errors.Is(result, target) for wrapped arguments is not modelled
			x.C.Abstracted["fmt.Errorf (fresh non-nil error, wrapping not modelled)"]++
		}
		return []Value{out}, true
	case k == "fmt.Sprintf", k == "fmt.Sprint", k == "strconv.Quote":
		return []Value{{T: res(0), L: []Term{x.C.Fresh("sprintf", SStr)}}}, true
	case k == "strconv.Itoa":
		// Itoa(n) is a function of n whose result Atoi maps back to n (hence Itoa is injective)
		x.C.DeclareFun("sx.itoa", []Sort{SBV64}, SStr)
		x.C.DeclareFun("sx.atoi", []Sort{SStr}, SBV64)
		x.C.DeclareFun("sx.atoiok", []Sort{SStr}, SBool)
		n := args[0].L[0]
		r := app(SStr, "sx.itoa", n)
		x.C.Assume(And(Eq(app(SBV64, "sx.atoi", r), n), app(SBool, "sx.atoiok", r), Not(Eq(app(SBV64, "sx.len", r), BVLitI(64, 0)))))
		x.C.Trusted["strconv.Atoi(strconv.Itoa(n)) == n, nil; Itoa(n) is not empty"] = true
		return []Value{{T: res(0), L: []Term{r}}}, true
	case k == "strconv.Atoi":
		x.C.DeclareFun("sx.atoi", []Sort{SStr}, SBV64)
		x.C.DeclareFun("sx.atoiok", []Sort{SStr}, SBool)
		a := args[0].L[0]
		ok := app(SBool, "sx.atoiok", a)
		r := x.alloc(s, "err")
		tag := IntLit(x.E.typeID(types.NewPointer(types.NewNamed(types.NewTypeName(token.NoPos, nil, "strconv.NumError", nil), types.NewStruct(nil, nil), nil))))
		errV := Value{T: res(1), L: []Term{Ite(ok, IntLit(0), tag), Ite(ok, IntLit(0), r), BVLitI(64, 0)}}
		x.C.Trusted["strconv.Atoi is a function of its argument (value and success)"] = true
		return []Value{{T: res(0), L: []Term{Ite(ok, app(SBV64, "sx.atoi", a), BVLitI(64, 0))}}, errV}, true
	case k == "strings.Split":
		// the pieces are uninterpreted; with a non-empty separator there is at least one piece
		str, sep := args[0].L[0], args[1].L[0]
		ref := x.alloc(s, "split")
		n := x.C.Fresh("splitlen", SBV64)
		v := Value{T: res(0), L: []Term{ref, BVLitI(64, 0), n, n}}
		x.C.Assume(Implies(s.Reach, And(
			Implies(Not(Eq(app(SBV64, "sx.len", sep), BVLitI(64, 0))), BVCmp("bvsge", n, BVLitI(64, 1))),
			BVCmp("bvsge", n, BVLitI(64, 0)),
			BVCmp("bvsle", n, BVOp("bvadd", app(SBV64, "sx.len", str), BVLitI(64, 1))))))
		x.C.Trusted["strings.Split(s, sep) with a non-empty separator returns between 1 and len(s)+1 pieces in a new slice"] = true
		return []Value{v}, true
	case k == "strings.Index":
		str, sub := args[0].L[0], args[1].L[0]
		x.C.DeclareFun("sx.index", []Sort{SStr, SStr}, SBV64)
		r := app(SBV64, "sx.index", str, sub)
		x.C.Assume(Or(Eq(r, BVLitI(64, -1)), And(BVCmp("bvsge", r, BVLitI(64, 0)),
			BVCmp("bvsle", r, BVOp("bvsub", app(SBV64, "sx.len", str), app(SBV64, "sx.len", sub))),
			BVCmp("bvsle", app(SBV64, "sx.len", sub), app(SBV64, "sx.len", str)))))
		x.C.Trusted["strings.Index(s, sub) is -1 or a position where sub fits into s"] = true
		return []Value{{T: res(0), L: []Term{r}}}, true
	case k == "strings.HasPrefix", k == "strings.HasSuffix":
		str, pre := args[0].L[0], args[1].L[0]
		fn := "sx.hasprefix"
		if k == "strings.HasSuffix" {
			fn = "sx.hassuffix"
		}
		x.C.DeclareFun(fn, []Sort{SStr, SStr}, SBool)
		r := app(SBool, fn, str, pre)
		x.C.Assume(Implies(r, BVCmp("bvule", app(SBV64, "sx.len", pre), app(SBV64, "sx.len", str))))
		x.C.Trusted["strings.HasPrefix/HasSuffix(s, p) implies len(p) <= len(s)"] = true
		return []Value{boolVal(r)}, true
	case k == "strconv.ParseUint":
		// a function of its arguments; a successful result fits the requested bit size
		x.C.DeclareFun("sx.parseuint", []Sort{SStr, SBV64, SBV64}, SBV64)
		x.C.DeclareFun("sx.parseuintok", []Sort{SStr, SBV64, SBV64}, SBool)
		str, base, bits := args[0].L[0], args[1].L[0], args[2].L[0]
		v := app(SBV64, "sx.parseuint", str, base, bits)
		ok := app(SBool, "sx.parseuintok", str, base, bits)
		fits := Or(BVCmp("bvsle", bits, BVLitI(64, 0)), BVCmp("bvsge", bits, BVLitI(64, 64)),
			BVCmp("bvult", v, BVOp("bvshl", BVLitI(64, 1), bits)))
		x.C.Assume(Implies(ok, fits))
		r := x.alloc(s, "err")
		tag := IntLit(x.E.typeID(types.NewPointer(types.NewNamed(types.NewTypeName(token.NoPos, nil, "strconv.NumError", nil), types.NewStruct(nil, nil), nil))))
		errV := Value{T: res(1), L: []Term{Ite(ok, IntLit(0), tag), Ite(ok, IntLit(0), r), BVLitI(64, 0)}}
		x.C.Trusted["strconv.ParseUint is a function of its arguments; a successful result is below 2^bitSize"] = true
		return []Value{{T: res(0), L: []Term{v}}, errV}, true
	case k == "strings.EqualFold":
		a, b := args[0].L[0], args[1].L[0]
		// reflexive, symmetric (by ordering the arguments is not possible syntactically: axioms instead)
		t := app(SBool, "sx.fold", a, b)
		x.C.Assume(And(app(SBool, "sx.fold", a, a), app(SBool, "sx.fold", b, b), Eq(t, app(SBool, "sx.fold", b, a)),
			Implies(Eq(a, b), t), Eq(t, Eq(app(SStr, "sx.lower", a), app(SStr, "sx.lower", b)))))
		x.C.Trusted["strings.EqualFold(a,b) <=> ToLower(a)==ToLower(b) (holds for ASCII; stated precondition of C17)"] = true
		return []Value{boolVal(t)}, true
	case k == "strings.ToLower":
		a := args[0].L[0]
		r := app(SStr, "sx.lower", a)
		x.C.Assume(And(Eq(app(SStr, "sx.lower", r), r), Eq(app(SBV64, "sx.len", r), app(SBV64, "sx.len", a))))
		x.C.Trusted["strings.ToLower idempotent and length-preserving (ASCII)"] = true
		return []Value{{T: res(0), L: []Term{r}}}, true
	case k == "bytes.Equal":
		a, b := args[0], args[1]
		h := x.heap(s, SBV8)
		i := x.C.BoundVar("i", SBV64)
		eq := And(Eq(a.L[2], b.L[2]), Forall([]Term{i}, Implies(BVCmp("bvult", i, a.L[2]),
			Eq(Select(Select(h, a.L[0], ObjSort(SBV8)), BVOp("bvadd", a.L[1], i), SBV8), Select(Select(h, b.L[0], ObjSort(SBV8)), BVOp("bvadd", b.L[1], i), SBV8)))))
		return []Value{boolVal(eq)}, true
	case k == "errors.Is":
		x.C.DeclareFun("errors.is", []Sort{SInt, SInt, SBV64, SInt, SInt, SBV64}, SBool)
		a, b := args[0], args[1]
		t := app(SBool, "errors.is", a.L[0], a.L[1], a.L[2], b.L[0], b.L[1], b.L[2])
		same := And(Eq(a.L[0], b.L[0]), Eq(a.L[1], b.L[1]), Eq(a.L[2], b.L[2]))
		x.C.Assume(Implies(s.Reach, And(Implies(same, t), Implies(And(Eq(a.L[0], IntLit(0)), Not(Eq(b.L[0], IntLit(0)))), Not(t)))))
		return []Value{boolVal(t)}, true
	}
	return nil, false
}

func (x *Exec) invokeModel(fr *frame, s *State, c *ssa.CallCommon, recv Value, args []Value, pos token.Pos) ([]Value, bool) {
	if c.Method.Name() == "Error" && c.Signature().Params().Len() == 0 {
		return []Value{{T: types.Typ[types.String], L: []Term{x.C.Fresh("errstr", SStr)}}}, true
	}
	if c.Method.Name() == "String" && c.Signature().Params().Len() == 0 && c.Signature().Results().Len() == 1 {
		return []Value{{T: types.Typ[types.String], L: []Term{x.C.Fresh("str", SStr)}}}, true
	}
	return nil, false
}

// binaryModel: encoding/binary ByteOrder methods, exact, with their bounds obligations.
func (x *Exec) binaryModel(fr *frame, s *State, callee *ssa.Function, big bool, args []Value, pos token.Pos) ([]Value, bool) {
	name := callee.Name()
	var n int
	switch {
	case strings.HasSuffix(name, "16"):
		n = 2
	case strings.HasSuffix(name, "32"):
		n = 4
	case strings.HasSuffix(name, "64"):
		n = 8
	default:
		return nil, false
	}
	h := x.heap(s, SBV8)
	switch {
	case strings.HasPrefix(name, "Uint"):
		b := args[1]
		if x.safety {
			x.C.Oblige(x.oblName(fr.fn, "index"), "bounds", x.pos(pos), fmt.Sprintf("binary.%s: len(b) >= %d", name, n), s.Reach,
				BVCmp("bvuge", b.L[2], BVLitI(64, int64(n))))
		}
		obj := Select(h, b.L[0], ObjSort(SBV8))
		bytes := make([]Term, n)
		for i := 0; i < n; i++ {
			bytes[i] = Select(obj, offAdd(b.L[1], int64(i)), SBV8)
		}
		var parts []string
		if big {
			for i := 0; i < n; i++ {
				parts = append(parts, bytes[i].S)
			}
		} else {
			for i := n - 1; i >= 0; i-- {
				parts = append(parts, bytes[i].S)
			}
		}
		t := Term{"(concat " + strings.Join(parts, " ") + ")", BV(8 * n)}
		return []Value{{T: callee.Signature.Results().At(0).Type(), L: []Term{t}}}, true
	case strings.HasPrefix(name, "PutUint"):
		b, v := args[1], args[2]
		if x.safety {
			x.C.Oblige(x.oblName(fr.fn, "index"), "bounds", x.pos(pos), fmt.Sprintf("binary.%s: len(b) >= %d", name, n), s.Reach,
				BVCmp("bvuge", b.L[2], BVLitI(64, int64(n))))
		}
		x.frameCheckLoc(fr, s, b.L[0], b.L[1], int64(n), pos)
		obj := Select(h, b.L[0], ObjSort(SBV8))
		for i := 0; i < n; i++ {
			var hi int
			if big {
				hi = 8*(n-i) - 1
			} else {
				hi = 8*i + 7
			}
			byt := Term{fmt.Sprintf("((_ extract %d %d) %s)", hi, hi-7, v.L[0].S), SBV8}
			obj = Store(obj, offAdd(b.L[1], int64(i)), byt)
		}
		s.Heaps[SBV8] = x.C.Define("H", Store(h, b.L[0], obj))
		return []Value{}, true
	}
	return nil, false
}

// lockEvent is the hook for monitor semantics (see monitor.go).
func (x *Exec) lockEvent(fr *frame, s *State, callee *ssa.Function, method string, mu Value, pos token.Pos) {
	x.C.Trusted["sync.Mutex/RWMutex provide mutual exclusion; Lock/Unlock are sequential no-ops unless a monitor is declared"] = true
}

// binaryReadModel: binary.Read(bytes.NewReader(b), order, &v) where the reader is created
// for this one call (its only use), v is a fixed-size integer. Exact: the call fails, leaving
// v untouched, iff len(b) < size(v); otherwise v is the decoded prefix of b.
func (x *Exec) binaryReadModel(fr *frame, s *State, in *ssa.Call) ([]Value, bool) {
	c := &in.Call
	if len(c.Args) != 3 {
		return nil, false
	}
	onlyUse := func(v ssa.Value, user ssa.Instruction) bool {
		refs := v.Referrers()
		if refs == nil {
			return false
		}
		for _, r := range *refs {
			if _, dbg := r.(*ssa.DebugRef); dbg {
				continue
			}
			if r != user {
				return false
			}
		}
		return true
	}
	mi, ok := c.Args[0].(*ssa.MakeInterface)
	if !ok || !onlyUse(mi, in) {
		return nil, false
	}
	src := mi.X
	if ld, isLoad := src.(*ssa.UnOp); isLoad && ld.Op == token.MUL {
		// naive-form SSA: the reader sits in a local variable with one store and this one load
		a, isAlloc := ld.X.(*ssa.Alloc)
		if !isAlloc || a.Referrers() == nil || !onlyUse(ld, mi) {
			return nil, false
		}
		var stored ssa.Value
		for _, r := range *a.Referrers() {
			switch r := r.(type) {
			case *ssa.DebugRef:
			case *ssa.Store:
				if r.Addr != a || stored != nil {
					return nil, false
				}
				stored = r.Val
			case *ssa.UnOp:
				if r != ld {
					return nil, false
				}
			default:
				return nil, false
			}
		}
		if stored == nil {
			return nil, false
		}
		if call, isCall := stored.(*ssa.Call); !isCall || !onlyUseStore(call, a) {
			return nil, false
		}
		src = stored
	} else if call, isCall := src.(*ssa.Call); !isCall || !onlyUse(call, mi) {
		return nil, false
	}
	nr, ok := src.(*ssa.Call)
	if !ok || nr.Call.StaticCallee() == nil || x.E.fnKey(nr.Call.StaticCallee()) != "bytes.NewReader" {
		return nil, false
	}
	om, ok := c.Args[1].(*ssa.MakeInterface)
	if !ok {
		return nil, false
	}
	var big bool
	switch om.X.Type().String() {
	case "encoding/binary.bigEndian":
		big = true
	case "encoding/binary.littleEndian":
		big = false
	default:
		return nil, false
	}
	dm, ok := c.Args[2].(*ssa.MakeInterface)
	if !ok {
		return nil, false
	}
	pt, ok := dm.X.Type().Underlying().(*types.Pointer)
	if !ok {
		return nil, false
	}
	bt, ok := pt.Elem().Underlying().(*types.Basic)
	if !ok {
		return nil, false
	}
	var n int
	switch bt.Kind() {
	case types.Uint8, types.Int8:
		n = 1
	case types.Uint16, types.Int16:
		n = 2
	case types.Uint32, types.Int32:
		n = 4
	case types.Uint64, types.Int64:
		n = 8
	default:
		return nil, false
	}
	b := x.operand(fr, s, nr.Call.Args[0])
	dst := x.operand(fr, s, dm.X)
	okc := x.C.Define("binread_ok", BVCmp("bvuge", b.L[2], BVLitI(64, int64(n))))
	h := x.heap(s, SBV8)
	obj := Select(h, b.L[0], ObjSort(SBV8))
	var parts []string
	for i := 0; i < n; i++ {
		k := i
		if !big {
			k = n - 1 - i
		}
		parts = append(parts, Select(obj, offAdd(b.L[1], int64(k)), SBV8).S)
	}
	var dec Term
	if n == 1 {
		dec = Term{parts[0], SBV8}
	} else {
		dec = Term{"(concat " + strings.Join(parts, " ") + ")", BV(8 * n)}
	}
	cur := x.load(fr, s, dst, pt.Elem(), in.Pos())
	x.store(fr, s, dst, Value{T: pt.Elem(), L: []Term{x.C.Define("binread", Ite(okc, dec, cur.L[0]))}}, in.Pos())
	r := x.alloc(s, "err")
	tag := IntLit(x.E.typeID(types.NewPointer(types.NewNamed(types.NewTypeName(token.NoPos, nil, "errors.errorString", nil), types.NewStruct(nil, nil), nil))))
	errT := c.Signature().Results().At(0).Type()
	out := Value{T: errT, L: []Term{Ite(okc, IntLit(0), tag), Ite(okc, IntLit(0), r), BVLitI(64, 0)}}
	x.C.Trusted["binary.Read(bytes.NewReader(b), order, &v) for a reader used once: fails iff len(b) < size(v), else v = decoded prefix (exact model of the stdlib fast path)"] = true
	return []Value{out}, true
}

// onlyUseStore: the only use of v is one store into the local a.
func onlyUseStore(v ssa.Value, a *ssa.Alloc) bool {
	refs := v.Referrers()
	if refs == nil {
		return false
	}
	n := 0
	for _, r := range *refs {
		switch r := r.(type) {
		case *ssa.DebugRef:
		case *ssa.Store:
			if r.Addr != a || r.Val != v {
				return false
			}
			n++
		default:
			return false
		}
	}
	return n == 1
}
